package checks

import (
	"fmt"
	"strings"

	"github.com/jotaen/klog/klog"
	"github.com/jotaen/klog/klog/parser"
	"github.com/jotaen/klog/klog/parser/txt"
	"github.com/jotaen/klog/klog/service/period"

	sm "klogverif/specmodel"
)

// Canonical, comparable renderings of records: one from the reference denotation,
// one from klog's record objects (read through the public accessors only).

func refDurString(d sm.DurLit) string {
	s := sm.CanonicalDuration(d.Mins)
	if d.Mins > 0 && d.Plus {
		s = "+" + s
	}
	if d.Mins == 0 {
		if d.ZeroSign < 0 {
			s = "-" + s
		} else if d.ZeroSign > 0 {
			s = "+" + s
		}
	}
	return s
}

func refTime(t sm.TimeLit) string {
	return fmt.Sprintf("%d/%v", t.Mins, t.TwelveH)
}

func kTime(t klog.Time) string {
	if t == nil {
		return "nil"
	}
	// value, notation, and the accessor view (hour, minute, shift) must all agree
	sh := 0
	if t.IsYesterday() {
		sh = -1
	} else if t.IsTomorrow() {
		sh = 1
	}
	if t.MidnightOffset().InMinutes() != sh*1440+t.Hour()*60+t.Minute() {
		return fmt.Sprintf("INCONSISTENT(%d vs shift %d %d:%d)", t.MidnightOffset().InMinutes(), sh, t.Hour(), t.Minute())
	}
	return fmt.Sprintf("%d/%v", t.MidnightOffset().InMinutes(), !t.Format().Use24HourClock)
}

func normSummary(s []string) []string {
	if len(s) == 0 {
		return []string{""}
	}
	return s
}

func canonRef(rs []sm.Record) string {
	var b strings.Builder
	for _, r := range rs {
		should := 0
		if r.HasShould {
			should = r.Should
		}
		fmt.Fprintf(&b, "R %04d-%02d-%02d slash=%v should=%d sum=%q\n", r.Date.Y, r.Date.M, r.Date.D, r.Date.Slash, should, r.Summary)
		for _, e := range r.Entries {
			switch e.Kind {
			case sm.KDuration:
				fmt.Fprintf(&b, " D %d %s", e.Dur.Mins, refDurString(e.Dur))
			case sm.KRange:
				fmt.Fprintf(&b, " G %s %s dash=%s dur=%d", refTime(e.Start), refTime(e.End), dashName(e.Dash), e.End.Mins-e.Start.Mins)
			case sm.KOpenRange:
				fmt.Fprintf(&b, " O %s dash=%s ph=%d", refTime(e.Start), dashName(e.Dash), e.Placeholder)
			}
			fmt.Fprintf(&b, " sum=%q\n", normSummary(e.Summary))
		}
	}
	return b.String()
}

func dashName(d int) string {
	switch d {
	case sm.DashNone:
		return "none"
	case sm.DashSpaced:
		return "spaced"
	}
	return "*"
}

// canonKlog renders klog records; ref (may be nil) tells where the dash spacing is
// irregular in the source, in which case the notation is not compared.
func canonKlog(rs []klog.Record, ref []sm.Record) string {
	var b strings.Builder
	for i, r := range rs {
		d := r.Date()
		fmt.Fprintf(&b, "R %04d-%02d-%02d slash=%v should=%d sum=%q\n", d.Year(), d.Month(), d.Day(), !d.Format().UseDashes, r.ShouldTotal().InMinutes(), []string(r.Summary()))
		for j, e := range r.Entries() {
			irregular := ref != nil && i < len(ref) && j < len(ref[i].Entries) && ref[i].Entries[j].Dash == sm.DashIrregular
			dash := func(spaced bool) string {
				if irregular {
					return "*"
				}
				if spaced {
					return "spaced"
				}
				return "none"
			}
			e := e
			line := klog.Unbox[string](&e,
				func(g klog.Range) string {
					return fmt.Sprintf(" G %s %s dash=%s dur=%d", kTime(g.Start()), kTime(g.End()), dash(g.Format().UseSpacesAroundDash), g.Duration().InMinutes())
				},
				func(du klog.Duration) string {
					return fmt.Sprintf(" D %d %s", du.InMinutes(), du.ToString())
				},
				func(o klog.OpenRange) string {
					return fmt.Sprintf(" O %s dash=%s ph=%d", kTime(o.Start()), dash(o.Format().UseSpacesAroundDash), 1+o.Format().AdditionalPlaceholderChars)
				})
			b.WriteString(line)
			fmt.Fprintf(&b, " sum=%q\n", normSummary([]string(e.Summary())))
		}
	}
	return b.String()
}

// klogParse runs the serial parser, converting a panic into a value.
func klogParse(text string) (rs []klog.Record, bs []txt.Block, errs []txt.Error, panicked bool, pval any, stack string) {
	panicked, pval, stack = tryRun(func() {
		rs, bs, errs = parser.NewSerialParser().Parse(text)
	})
	return
}

func errSummary(errs []txt.Error) string {
	var parts []string
	for i, e := range errs {
		if i >= 4 {
			parts = append(parts, "…")
			break
		}
		ln := -1
		tryRun(func() { ln = e.LineNumber() })
		parts = append(parts, fmt.Sprintf("%s@line%d", e.Code(), ln))
	}
	return strings.Join(parts, ", ")
}

// parseSerial is the plain serial parser (panics propagate to the caller's tryRun).
func parseSerial(text string) ([]klog.Record, []txt.Block, []txt.Error) {
	return parser.NewSerialParser().Parse(text)
}

func cliPeriod(pattern string) (period.Period, error) {
	return period.NewPeriodFromPatternString(pattern)
}
