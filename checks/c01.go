package checks

import (
	"encoding/json"
	"fmt"
	"os"
	"path/filepath"
	"strings"
	"sync"

	"github.com/jotaen/klog/klog"
	"github.com/jotaen/klog/klog/app"
	"github.com/jotaen/klog/klog/app/cli"
	cliutil "github.com/jotaen/klog/klog/app/cli/util"
	"github.com/jotaen/klog/klog/parser"
	"github.com/jotaen/klog/klog/parser/txt"

	"klogverif/clidrv"
	"klogverif/docgen"
	"klogverif/fw"
	sm "klogverif/specmodel"
)

// C01 — the parser accepts exactly the spec-conforming files and extracts the denoted data.

type docFamily struct {
	name  string
	count int
	// at returns the text and, when known by construction, the denotation.
	at func(i int) (text string, den []sm.Record, hasDen bool)
}

type famCase struct {
	Fam  string `json:"fam"`
	I    int    `json:"i"`
	Text fw.Txt `json:"text"`
}

var (
	famCache   = map[string][]docFamily{}
	famCacheMu sync.Mutex
)

func cachedFamilies(key string, mk func() []docFamily) []docFamily {
	famCacheMu.Lock()
	f, ok := famCache[key]
	famCacheMu.Unlock()
	if ok {
		return f
	}
	f = mk() // may itself call cachedFamilies
	famCacheMu.Lock()
	famCache[key] = f
	famCacheMu.Unlock()
	return f
}

// docResult renders a generated document; a record with two open ranges is invalid by
// construction (then no denotation is returned and specmodel must reject it, see c01Text).
func docResult(d docgen.Doc) (string, []sm.Record, bool) {
	for _, r := range d.Records {
		n := 0
		for _, e := range r.Entries {
			if e.Den.Kind == sm.KOpenRange {
				n++
			}
		}
		if n > 1 {
			return d.Text(), nil, true
		}
	}
	return d.Text(), d.Denotation(), true
}

func famSizes(fs []docFamily) []int {
	out := make([]int, len(fs))
	for i, f := range fs {
		out[i] = f.count
	}
	return out
}

func multiRecordFamily(name string, sp docgen.RecordSpace, n int) docFamily {
	per := sp.Count()
	total := 1
	for k := 0; k < n; k++ {
		total *= per
	}
	return docFamily{name, total, func(i int) (string, []sm.Record, bool) {
		d := docgen.Doc{Layout: docgen.DefaultLayout}
		for k := 0; k < n; k++ {
			d.Records = append(d.Records, sp.At(i%per))
			i /= per
		}
		return docResult(d)
	}}
}

func timeStringAt(i int) string {
	// index -> <?D{1,2}:DD(am|pm)?>?   (2 * 110 * 100 * 3 * 2 = 132000)
	d := docgen.Radix(i, 2, 3, 100, 110, 2)
	pre := []string{"", "<"}[d[4]]
	suf := []string{"", ">"}[d[0]]
	ap := []string{"", "am", "pm"}[d[1]]
	var hs string
	if d[3] < 10 {
		hs = fmt.Sprintf("%d", d[3])
	} else {
		hs = fmt.Sprintf("%02d", d[3]-10)
	}
	return fmt.Sprintf("%s%s:%02d%s%s", pre, hs, d[2], ap, suf)
}

func durationStringAt(i int) string {
	// sign{,+,-} x h 0..120 x m 0..130 x layout{NhMm,Nh,Mm}
	d := docgen.Radix(i, 3, 131, 121, 3)
	sign := []string{"", "+", "-"}[d[3]]
	switch d[0] {
	case 0:
		return fmt.Sprintf("%s%dh%dm", sign, d[2], d[1])
	case 1:
		return fmt.Sprintf("%s%dh", sign, d[2])
	}
	return fmt.Sprintf("%s%dm", sign, d[1])
}

// c01Families is the family list for C01 itself (wide: 3 entries per record and more edit pairs
// already in the quick tier); the checks that reuse these documents with costlier per-document work
// (C08, C09, C10, C20) use sharedFamilies.
func c01Families(tier fw.Tier) []docFamily { return docFamilies(tier, true) }

func sharedFamilies(tier fw.Tier) []docFamily { return docFamilies(tier, tier == fw.Thorough) }

func docFamilies(tier fw.Tier, wide bool) []docFamily {
	return cachedFamilies(fmt.Sprintf("c01/%s/%v", tier, wide), func() []docFamily {
		thorough := tier == fw.Thorough
		var fs []docFamily
		// FA: structure x values, canonical formatting
		me := 2
		if wide {
			me = 3
		}
		fa1 := docgen.FA1(me)
		fs = append(fs, docFamily{"FA1", fa1.Count(), func(i int) (string, []sm.Record, bool) {
			d := docgen.Doc{Records: []docgen.GRecord{fa1.At(i)}, Layout: docgen.DefaultLayout}
			return docResult(d)
		}})
		if thorough {
			fs = append(fs, multiRecordFamily("FA2", docgen.FA2(10, 2, 2), 2))
		} else {
			fs = append(fs, multiRecordFamily("FA2", docgen.FA2(6, 2, 2), 2))
		}
		fs = append(fs, multiRecordFamily("FA3", docgen.FA2(3, 2, 1), 3))
		// FB: formatting product
		fb := docgen.FB{Shapes: docgen.FBShapes(), Full: thorough}
		fs = append(fs, docFamily{"FB", fb.Count(), func(i int) (string, []sm.Record, bool) {
			d := fb.At(i)
			return docResult(d)
		}})
		// FC: value sweeps in a fixed skeleton
		fs = append(fs, docFamily{"FC-time", 132000 * 3, func(i int) (string, []sm.Record, bool) {
			s := timeStringAt(i / 3)
			switch i % 3 {
			case 0:
				return "2020-01-01\n    " + s + " - 23:59>\n", nil, false
			case 1:
				return "2020-01-01\n    <0:00 - " + s + " x\n", nil, false
			}
			return "2020-01-01\n    " + s + "-?\n", nil, false
		}})
		fs = append(fs, docFamily{"FC-duration", 3 * 131 * 121 * 3 * 2, func(i int) (string, []sm.Record, bool) {
			s := durationStringAt(i / 2)
			if i%2 == 0 {
				return "2020-01-01\n\t" + s + "\n", nil, false
			}
			return "2020-01-01 (" + s + "!)\n", nil, false
		}})
		years := []int{}
		for y := 0; y <= 9999; y++ {
			if thorough || y%97 == 0 || y == 9999 || y == 2024 || y == 1900 {
				years = append(years, y)
			}
		}
		fs = append(fs, docFamily{"FC-date", len(years) * 12 * 31 * 2, func(i int) (string, []sm.Record, bool) {
			d := docgen.Radix(i, 2, 31, 12, len(years))
			sep := []string{"-", "/"}[d[0]]
			return fmt.Sprintf("%04d%s%02d%s%02d\n    1h\n", years[d[3]], sep, d[2]+1, sep, d[1]+1), nil, false
		}})
		// FD: single and double edits
		bases := faultBases()
		var off []int
		total := 0
		for _, b := range bases {
			off = append(off, total)
			total += len(b.Edits)
		}
		fs = append(fs, docFamily{"FD1", total, func(i int) (string, []sm.Record, bool) {
			k := len(off) - 1
			for off[k] > i {
				k--
			}
			return bases[k].Apply(bases[k].Edits[i-off[k]]), nil, false
		}})
		nb := 6
		if wide {
			nb = 14
		}
		if thorough {
			nb = 60
		}
		if nb > len(bases) {
			nb = len(bases)
		}
		var off2 []int
		total2 := 0
		for _, b := range bases[:nb] {
			off2 = append(off2, total2)
			total2 += len(b.Edits) * len(b.Edits)
		}
		fs = append(fs, docFamily{"FD2", total2, func(i int) (string, []sm.Record, bool) {
			k := len(off2) - 1
			for off2[k] > i {
				k--
			}
			b := bases[k]
			j := i - off2[k]
			e1, e2 := b.Edits[j%len(b.Edits)], b.Edits[j/len(b.Edits)]
			if e1.Line >= e2.Line {
				return "", nil, false // each unordered pair on distinct lines once
			}
			return b.Apply(e1, e2), nil, false
		}})
		return fs
	})
}

var (
	faultBasesOnce sync.Once
	faultBasesV    []*docgen.Base
)

func faultBases() []*docgen.Base {
	faultBasesOnce.Do(func() {
		for _, t := range docgen.FaultBases(true) {
			b, ok := docgen.NewBase(t)
			if !ok {
				harnessFatal("fault base is not valid for specmodel: %q", t)
			}
			faultBasesV = append(faultBasesV, b)
		}
	})
	return faultBasesV
}

const c01Chunk = 20000

func init() {
	fw.Register(&fw.Check{
		ID:    "C01",
		Title: "Parser accepts exactly spec-conforming files and extracts the denoted data",
		Rule: "documents enumerated from the spec grammar: FA1/FA2/FA3 = 1-3 records x (date, should-total, record summary, <=2-3 entries from a 10-value menu x 6 entry-summary shapes); " +
			"FB = shapes x indentation per record x LF/CRLF/mixed x blank-line runs x final newline x headline gap; FC = every time string <?D{1,2}:DD(am|pm)?>? as range start/end/open start, " +
			"every duration layout as entry and should-total, dates as headlines; FD1/FD2 = every single (and pair of) rule-violating edit(s) from an " + fmt.Sprint(len(docgen.Ops)) + "-operator catalogue at every line of ~100 valid base documents. " +
			"A case is one document text; non-trivial = classified valid or invalid by the reference (don't-care texts are counted separately); distinct by FNV-64 of the text.",
		Assumptions: []string{
			"specmodel.Parse (reference parser written from Specification.md; three-way cross-check against the generator's denotation on FA/FB)",
			"don't-care zones (DESIGN §3.1): tab separators, blanks inside should-total parentheses, trailing blanks, integers > 10^9, invalid UTF-8 (a CR that is not part of CR LF is an ordinary non-blank character)",
			"every document is parsed by the serial parser and by the parallel parser with 2 and 3 workers; each result is judged on its own",
			"every 64th document also at file level through `klog total` with the text on standard input and with 1-3 input files (the text first, last or in the middle; equal base names in different directories): an invalid text makes the command fail, valid texts evaluate to all their records",
			"Unicode tables are Go's (shared with klog)",
		},
		Units: func(t fw.Tier) int { return len(planSpans(famSizes(c01Families(t)), c01Chunk)) },
		RunUnit: func(c *fw.Ctx, unit int) {
			fs := c01Families(c.Tier)
			sp := planSpans(famSizes(fs), c01Chunk)[unit]
			f := fs[sp.fam]
			for i := sp.lo; i < sp.hi; i++ {
				text, den, hasDen := f.at(i)
				if text == "" && !hasDen {
					continue
				}
				c01Text(c, f.name, i, text, den, hasDen)
			}
		},
		Replay: func(c *fw.Ctx, raw json.RawMessage) {
			var cs famCase
			if json.Unmarshal(raw, &cs) == nil {
				c01Text(c, cs.Fam, cs.I, string(cs.Text), nil, false)
			}
		},
	})
}

func c01Text(c *fw.Ctx, fam string, idx int, text string, den []sm.Record, hasDen bool) {
	c.Eval(1)
	cs := func() famCase { return famCase{fam, idx, fw.Txt(text)} }
	c.Sample(func() any { return cs() })
	ref := sm.Parse(text)
	if hasDen && den == nil {
		// invalid by construction (two open ranges in one record)
		if ref.Verdict != sm.Invalid {
			harnessFatal("generator/specmodel disagree: %s[%d] %q has two open ranges in a record but was classified %v", fam, idx, text, ref.Verdict)
		}
	} else if hasDen {
		// three-way: the generator knows what it wrote
		if ref.Verdict != sm.Valid {
			harnessFatal("generator/specmodel disagree: %s[%d] %q classified %v (%s, line %d)", fam, idx, text, ref.Verdict, ref.Rule, ref.Line)
		}
		if a, b := canonRef(ref.Records), canonRef(den); a != b {
			harnessFatal("generator/specmodel disagree on the denotation of %s[%d] %q:\nspecmodel:\n%s\ngenerator:\n%s", fam, idx, text, a, b)
		}
	}
	// leg 0: the serial parser; legs 1, 2: the parallel parser klog uses on machines with more than one CPU
	// (2 and 3 workers; C07 compares the two parsers for every worker count, here each must itself be right)
	for leg, n := range []int{1, 2, 3} {
		var rs []klog.Record
		var bs []txt.Block
		var errs []txt.Error
		var panicked bool
		var pv any
		var st string
		suffix := ""
		if leg == 0 {
			rs, bs, errs, panicked, pv, st = klogParse(text)
		} else {
			if ref.Verdict == sm.Unspec {
				return
			}
			suffix = fmt.Sprintf(":parallel%d", n)
			mark, _ := json.Marshal(cs())
			c.Mark(mark) // a panic inside a worker goroutine kills this process
			panicked, pv, st = tryRun(func() { rs, bs, errs = parser.NewParallelParser(n).Parse(text) })
			c.Mark(nil)
		}
		if !c01Judge(c, cs, suffix, text, ref, rs, bs, errs, panicked, pv, st) {
			return
		}
	}
	// file level, on a fixed stride: klog reads one or several input files; a file that breaks a MUST rule makes the
	// command fail wherever it stands among the inputs, and valid files evaluate to their records
	if idx%64 == 0 && ref.Verdict != sm.Unspec {
		c01Files(c, cs, text, ref)
	}
}

func c01Files(c *fw.Ctx, cs func() famCase, text string, ref sm.Result) {
	dir := fw.Scratch()
	home := clidrv.Home("home")
	os.MkdirAll(filepath.Join(dir, "x"), 0755)
	os.MkdirAll(filepath.Join(dir, "y"), 0755)
	path := clidrv.WriteFile(filepath.Join(dir, "x"), "in.klg", text)
	good := clidrv.WriteFile(filepath.Join(dir, "y"), "in.klg", "2000-01-01\n    1h\n\n2000-01-02\n    2h\n") // same base name, another directory
	// the same text piped through standard input (no file argument)
	if strings.TrimSpace(text) != "" {
		in := text
		r := clidrv.Exec(clidrv.Home("home-nobookmarks"), clidrv.Opts{Now: fixedNow, OSStdin: &in}, &cli.Total{DecimalArgs: cliutil.DecimalArgs{Decimal: true}, NoStyleArgs: cliutil.NoStyleArgs{NoStyle: true}, WarnArgs: cliutil.WarnArgs{NoWarn: true}})
		c.Count("stdin_runs", 1)
		switch {
		case r.Panicked:
			c.Violation("panic:stdin:"+fw.PanicSite(r.Stack), cs(), fmt.Sprintf("`klog total` with the text on standard input panicked: %v\n%s", r.PanicVal, r.Stack))
			return
		case ref.Verdict == sm.Invalid && r.Code == 0:
			c.Violation("invalid-stdin-accepted", cs(), fmt.Sprintf("the text breaks a MUST rule (line %d: %s) but `klog total` with it on standard input exits 0 and prints %q", ref.Line, ref.Rule, r.Stdout))
			return
		case ref.Verdict == sm.Valid && !ref.ZsBlank && len(ref.Records) > 0:
			n := len(ref.Records)
			exp := fmt.Sprintf("Total: %d\n(In %d record%s)\n", sm.Total(ref.Records), n, map[bool]string{true: "", false: "s"}[n == 1])
			if r.Code != 0 || r.Stdout != exp {
				c.Violation("valid-stdin-total", cs(), fmt.Sprintf("`klog total --decimal` with the text on standard input printed (exit %d %s)\n%q\nexpected\n%q", r.Code, r.Err, r.Stdout, exp))
				return
			}
		}
	}
	for _, order := range [][]string{{path}, {path, good}, {good, path}, {good, path, good}} {
		var files []app.FileOrBookmarkName
		for _, f := range order {
			files = append(files, app.FileOrBookmarkName(f))
		}
		r := clidrv.Exec(home, clidrv.Opts{Now: fixedNow, NumCpus: 1 + len(order)%2}, &cli.Total{DecimalArgs: cliutil.DecimalArgs{Decimal: true}, NoStyleArgs: cliutil.NoStyleArgs{NoStyle: true}, WarnArgs: cliutil.WarnArgs{NoWarn: true}, InputFilesArgs: cliutil.InputFilesArgs{File: files}})
		c.Count("file_level_runs", 1)
		if r.Panicked {
			c.Violation("panic:files:"+fw.PanicSite(r.Stack), cs(), fmt.Sprintf("`klog total` on %d input files panicked: %v\n%s", len(order), r.PanicVal, r.Stack))
			return
		}
		if ref.Verdict == sm.Invalid {
			if r.Code == 0 {
				c.Violation("invalid-file-accepted", cs(), fmt.Sprintf("the text breaks a MUST rule (line %d: %s) but `klog total` with it as input %d of %d exits 0 and prints %q", ref.Line, ref.Rule, 1+indexOf(order, path), len(order), r.Stdout))
				return
			}
			continue
		}
		if ref.ZsBlank {
			continue // known finding of the parser legs
		}
		n, want := len(ref.Records), sm.Total(ref.Records)
		for _, f := range order {
			if f == good {
				n, want = n+2, want+180
			}
		}
		if n == 0 {
			continue
		}
		exp := fmt.Sprintf("Total: %d\n(In %d record%s)\n", want, n, map[bool]string{true: "", false: "s"}[n == 1])
		if r.Code != 0 || r.Stdout != exp {
			c.Violation("valid-files-total", cs(), fmt.Sprintf("`klog total --decimal` on %d input files (the text as number %d) printed (exit %d %s)\n%q\nexpected\n%q", len(order), 1+indexOf(order, path), r.Code, r.Err, r.Stdout, exp))
			return
		}
	}
}

// c01Judge compares one parser's result with the reference verdict; false = a violation was reported.
func c01Judge(c *fw.Ctx, cs func() famCase, suffix, text string, ref sm.Result, rs []klog.Record, bs []txt.Block, errs []txt.Error, panicked bool, pv any, st string) bool {
	if panicked {
		c.Violation("panic:"+fw.PanicSite(st)+suffix, cs(), fmt.Sprintf("parser%s panicked: %v\n%s", suffix, pv, st))
		return false
	}
	switch ref.Verdict {
	case sm.Unspec:
		c.Outcome("dont-care:" + ref.Rule)
		return false
	case sm.Valid:
		if suffix == "" {
			c.NontrivialString(text)
		}
		if len(errs) > 0 || (rs == nil && len(ref.Records) > 0) {
			if ref.ZsBlank {
				c.Violation("zs-blank-line-rejected", cs(), fmt.Sprintf("the text conforms to the specification (a line made only of Unicode space separators is a blank line) but was rejected: %s", errSummary(errs)))
				return false
			}
			c.Violation("valid-rejected"+suffix, cs(), fmt.Sprintf("the text conforms to the specification but was rejected%s: %s\nreference denotation:\n%s", suffix, errSummary(errs), canonRef(ref.Records)))
			return false
		}
		if suffix == "" {
			c.Outcome("valid")
		}
		if len(rs) != len(bs) {
			c.Violation("records-blocks-arity"+suffix, cs(), fmt.Sprintf("%d records but %d blocks", len(rs), len(bs)))
			return false
		}
		var got string
		if p, v, st := tryRun(func() { got = canonKlog(rs, ref.Records) }); p {
			c.Violation("panic:accessor:"+fw.PanicSite(st)+suffix, cs(), fmt.Sprintf("reading the records panicked: %v\n%s", v, st))
			return false
		}
		if want := canonRef(ref.Records); got != want {
			c.Violation("denotation"+suffix, cs(), fmt.Sprintf("records%s differ from what the text denotes.\nklog:\n%sreference:\n%s", suffix, got, want))
			return false
		}
	case sm.Invalid:
		if suffix == "" {
			c.NontrivialString(text)
			c.Outcome("invalid:" + ref.Rule)
		}
		if len(errs) == 0 {
			c.Violation("invalid-accepted"+suffix, cs(), fmt.Sprintf("the text breaks a MUST rule (line %d: %s) but was accepted%s:\n%s", ref.Line, ref.Rule, suffix, canonKlog(rs, nil)))
			return false
		}
		if rs != nil || bs != nil {
			c.Violation("errors-and-records"+suffix, cs(), "errors were returned together with records/blocks")
			return false
		}
	}
	return true
}
