//go:build verif

package checks

import (
	"encoding/json"
	"fmt"
	"os"
	"path/filepath"
	"strconv"
	"strings"
	gotime "time"

	"github.com/jotaen/klog/klog"
	"github.com/jotaen/klog/klog/app/cli"
	cliutil "github.com/jotaen/klog/klog/app/cli/util"
	"github.com/jotaen/klog/klog/service"

	"klogverif/clidrv"
	"klogverif/docgen"
	"klogverif/fw"
	sm "klogverif/specmodel"
)

// C02 — total, should-total and diff follow the specification's evaluation rules.

var c02Durations = []string{"0m", "1m", "-1m", "59m", "-59m", "1h", "-1h", "90m", "25h", "-25h30m", "+2h"}
var c02Times = []string{"<0:00", "<23:59", "<24:00", "0:00", "12:00am", "11:59", "12:00pm", "23:59", "24:00", "0:00>", "23:59>"}
var c02Opens = []string{"<22:00 - ?", "0:00 - ?", "8:00-?", "23:59 - ???", "0:30> - ?"}

// c02Menu: every duration, every valid ordered pair of the boundary times (both dash spacings alternate), the open ranges.
func c02Menu() []string {
	var m []string
	m = append(m, c02Durations...)
	k := 0
	for _, a := range c02Times {
		for _, b := range c02Times {
			ta, _ := sm.ParseTime(a)
			tb, _ := sm.ParseTime(b)
			if tb.Mins >= ta.Mins {
				if k%2 == 0 {
					m = append(m, a+" - "+b)
				} else {
					m = append(m, a+"-"+b)
				}
				k++
			}
		}
	}
	m = append(m, c02Opens...)
	return m
}

var c02Small = []string{"1h", "-30m", "0m", "8:00 - 9:30", "<23:00 - 1:00", "22:00 - 0:30>", "12:00 - 13:00", "12:30 - 13:30", "<24:00-24:00", "8:00 - ?", "0:15> - ?", "25h"}
var c02Shoulds = []string{"", " (0m!)", " (8h!)", " (-2h!)"}

func c02Families(tier fw.Tier) []docFamily {
	return cachedFamilies("c02/"+string(tier), func() []docFamily {
		menu := c02Menu()
		maxE := 3
		ts1 := docgen.TokenSpace{Alphabet: make([]string, len(menu)), MaxLen: maxE}
		var fs []docFamily
		// F1: one record, all sequences of <= 3 entries over the full menu
		fs = append(fs, docFamily{"F1", ts1.Count(), func(i int) (string, []sm.Record, bool) {
			t := "2021-03-04\n"
			for _, d := range ts1.Digits(i) {
				t += "    " + menu[d] + "\n"
			}
			return t, nil, false
		}})
		// F2: two and three records (incl. duplicate dates), reduced menu, should-totals
		per := docgen.TokenSpace{Alphabet: make([]string, len(c02Small)), MaxLen: 2}
		nper := per.Count() * len(c02Shoulds)
		rec := func(date string, i int) string {
			t := date + c02Shoulds[i%len(c02Shoulds)] + "\n"
			for _, d := range per.Digits(i / len(c02Shoulds)) {
				t += "\t" + c02Small[d] + " x\n"
			}
			return t
		}
		dates2 := [][2]string{{"2021-03-04", "2021-03-04"}, {"2021-03-04", "2021-03-05"}, {"2021-03-05", "2021/03/04"}}
		fs = append(fs, docFamily{"F2", nper * nper * len(dates2), func(i int) (string, []sm.Record, bool) {
			d := docgen.Radix(i, nper, nper, len(dates2))
			return rec(dates2[d[2]][0], d[0]) + "\n" + rec(dates2[d[2]][1], d[1]), nil, false
		}})
		if tier == fw.Thorough {
			per1 := docgen.TokenSpace{Alphabet: make([]string, len(c02Small)), MaxLen: 1}
			n1 := per1.Count() * len(c02Shoulds)
			fs = append(fs, docFamily{"F2x3", n1 * n1 * n1, func(i int) (string, []sm.Record, bool) {
				d := docgen.Radix(i, n1, n1, n1)
				r1 := func(date string, i int) string {
					t := date + c02Shoulds[i%len(c02Shoulds)] + "\n"
					for _, d := range per1.Digits(i / len(c02Shoulds)) {
						t += "  " + c02Small[d] + "\n"
					}
					return t
				}
				return r1("2021-03-04", d[0]) + "\n" + r1("2021-03-04", d[1]) + "\n\n" + r1("2021-03-03", d[2]), nil, false
			}})
			// every shifted time as range start against three ends
			fs = append(fs, docFamily{"F4", 4320 * 3, func(i int) (string, []sm.Record, bool) {
				st := sm.TimeLit{Mins: i/3 - 1440, TwelveH: i%2 == 1}
				end := []string{"23:59>", "12:00", "<0:00"}[i%3]
				return "2021-03-04\n    " + st.String() + " - " + end + "\n    1h\n", nil, false
			}})
		}
		return fs
	})
}

type c02Case struct {
	Fam  string `json:"fam"`
	I    int    `json:"i"`
	Text fw.Txt `json:"text"`
	Now  string `json:"now,omitempty"`
}

const c02Chunk = 2000

// F3 (--now): record dates relative to the clock x open-range starts x clock readings
var c02NowDays = []int{0, -1, -2, 1}
var c02NowStarts = []string{"<23:00", "0:00", "0:01", "8:00", "11:59", "12:00", "12:01", "23:59", "0:30>", "23:59>"}
var c02NowClock = [][2]int{{0, 0}, {0, 1}, {0, 30}, {11, 59}, {12, 0}, {23, 30}, {23, 59}}

// (2024-04-01 and 2024-10-27: clidrv expresses clock readings on these days in Europe/Berlin, where the day before /
// the day itself is not 24 hours long)
var c02NowToday = [][3]int{{2021, 3, 5}, {2024, 3, 1}, {2021, 1, 1}, {2024, 4, 1}, {2024, 10, 27}}

func c02NowCount() int {
	return len(c02NowDays) * len(c02NowDays) * len(c02NowStarts) * len(c02NowClock) * len(c02NowToday) * 3
}

func init() {
	fw.Register(&fw.Check{
		ID:    "C02",
		Title: "Total, should-total and diff follow the specification's evaluation rules",
		Rule: "F1 = one record with every sequence of <=3 entries over a menu of 11 durations, all 66 valid ordered pairs of 11 boundary times (<0:00 .. 23:59>, 24:00 spellings, 12h) and 5 open ranges; " +
			"F2 = two records (same date, ascending, descending with mixed separators) x <=2 entries from 12 x 4 should-totals each; thorough adds three records and every shifted time as range start; " +
			"F3 = --now: two records dated {today, yesterday, 2 days ago, tomorrow}^2 with an open range starting at 10 boundary times x 7 clock readings x 5 calendar days (month/leap/year boundary, the days around two daylight-saving transitions in the clock's zone). " +
			"F4 = `today --now --diff --follow` on every F3 document and clock over a history of 3 refreshes (+45 min, +13 h 45 min; file unchanged, or swapped for another document and back): each refresh must equal a fresh one-shot run at that instant. " +
			"non-trivial = reference-valid with at least one entry; distinct by text (+clock) hash.",
		Assumptions: []string{
			"specmodel evaluator in integer minutes; the documents' denotation comes from specmodel.Parse (cross-checked by C01)",
			"observed through service.Total/ShouldTotalSum/Diff on the parsed records for every document; every 96th (quick) / 16th (thorough) document and all of F3 also through `klog total --diff --decimal`, `klog json` and `klog print --with-totals` via the complete CLI",
		},
		Units: func(t fw.Tier) int {
			return len(planSpans(append(famSizes(c02Families(t)), c02NowCount(), 2*c02NowCount()), c02Chunk))
		},
		RunUnit: func(c *fw.Ctx, unit int) {
			if unit == 0 {
				c02Big(c)
			}
			fs := c02Families(c.Tier)
			sp := planSpans(append(famSizes(fs), c02NowCount(), 2*c02NowCount()), c02Chunk)[unit]
			for i := sp.lo; i < sp.hi; i++ {
				if sp.fam == len(fs) {
					c02Now(c, i)
					continue
				}
				if sp.fam == len(fs)+1 {
					c02Follow(c, i)
					continue
				}
				text, _, _ := fs[sp.fam].at(i)
				c02Text(c, fs[sp.fam].name, i, text, (c.Tier == fw.Thorough && i%16 == 0) || i%96 == 0)
			}
		},
		Replay: func(c *fw.Ctx, raw json.RawMessage) {
			var cs c02Case
			if json.Unmarshal(raw, &cs) != nil {
				return
			}
			if cs.Fam == "big" {
				c02Big(c)
			} else if cs.Fam == "F3" {
				c02Now(c, cs.I)
			} else if cs.Fam == "F4" {
				c02Follow(c, cs.I)
			} else {
				c02Text(c, cs.Fam, cs.I, string(cs.Text), true)
			}
		},
	})
}

func c02Text(c *fw.Ctx, fam string, idx int, text string, viaCLI bool) {
	ref := sm.Parse(text)
	if ref.Verdict != sm.Valid {
		c.Outcome("skipped-invalid") // e.g. two open ranges
		return
	}
	c.Eval(1)
	cs := c02Case{Fam: fam, I: idx, Text: fw.Txt(text)}
	c.Sample(func() any { return cs })
	rs, _, errs, panicked, _, _ := klogParse(text)
	if panicked || len(errs) > 0 || len(rs) != len(ref.Records) {
		c.Outcome("skipped-klog-rejects")
		return
	}
	c.NontrivialString(text)
	wantTotal, wantShould := sm.Total(ref.Records), sm.ShouldSum(ref.Records)
	var gotTotal, gotShould, gotDiff int
	if p, v, st := tryRun(func() {
		gotTotal = service.Total(rs...).InMinutes()
		should := service.ShouldTotalSum(rs...)
		gotShould = should.InMinutes()
		gotDiff = service.Diff(should, service.Total(rs...)).InMinutes()
	}); p {
		c.Violation("panic:evaluate:"+fw.PanicSite(st), cs, fmt.Sprintf("evaluation panicked: %v\n%s", v, st))
		return
	}
	if gotTotal != wantTotal || gotShould != wantShould || gotDiff != wantTotal-wantShould {
		c.Violation("total", cs, fmt.Sprintf("total/should/diff = %d/%d/%d min, the specification gives %d/%d/%d", gotTotal, gotShould, gotDiff, wantTotal, wantShould, wantTotal-wantShould))
		return
	}
	// per record and per entry
	for i, r := range rs {
		if t := service.Total(r).InMinutes(); t != ref.Records[i].Total() {
			c.Violation("record-total", cs, fmt.Sprintf("record %d: total %d min, expected %d", i, t, ref.Records[i].Total()))
			return
		}
		for j, e := range r.Entries() {
			e := e
			if d := e.Duration().InMinutes(); d != ref.Records[i].Entries[j].Minutes() {
				c.Violation("entry-duration", cs, fmt.Sprintf("record %d entry %d counts %d min, expected %d", i, j, d, ref.Records[i].Entries[j].Minutes()))
				return
			}
		}
	}
	c.Outcome("ok")
	if viaCLI {
		c02CLI(c, cs, text, ref.Records, clidrv.Opts{Now: fixedNow}, false)
	}
}

// c02CLI compares the three CLI views with the reference evaluation.
func c02CLI(c *fw.Ctx, cs c02Case, text string, recs []sm.Record, o clidrv.Opts, now bool) {
	dir := fw.Scratch()
	home := clidrv.Home("home")
	path := clidrv.WriteFile(dir, "c02.klg", text)
	wantTotal, wantShould := sm.Total(recs), sm.ShouldSum(recs)
	args := []string{"total", "--diff", "--decimal", "--no-style", "--no-warn"}
	if now {
		args = append(args, "--now")
	}
	r := clidrv.Run(home, o, append(args, path)...)
	if r.Panicked {
		c.Violation("panic:cli-total:"+fw.PanicSite(r.Stack), cs, fmt.Sprintf("klog total panicked: %v\n%s", r.PanicVal, r.Stack))
		return
	}
	want := fmt.Sprintf("Total: %d\nShould: %d\nDiff: %d\n(In %d record%s)\n", wantTotal, wantShould, wantTotal-wantShould, len(recs), map[bool]string{true: "", false: "s"}[len(recs) == 1])
	if r.Code != 0 || strings.Replace(r.Stdout, "!\n", "\n", 1) != want { // (the should-total may carry its `!`)
		c.Violation("cli-total", cs, fmt.Sprintf("`klog %s` (exit %d, %s) printed\n%q\nexpected\n%q", strings.Join(args, " "), r.Code, r.Err, r.Stdout, want))
		return
	}
	// the same in klog's own duration notation (no --decimal): Total: 1h30m / Should: 8h! / Diff: -6h30m
	{
		var nd []string
		for _, x := range args {
			if x != "--decimal" {
				nd = append(nd, x)
			}
		}
		r2 := clidrv.Run(home, o, append(nd, path)...)
		vals := map[string]int{}
		okAll := !r2.Panicked && r2.Code == 0
		for _, l := range strings.Split(r2.Stdout, "\n") {
			for _, k := range []string{"Total: ", "Should: ", "Diff: "} {
				if strings.HasPrefix(l, k) {
					d, ok := sm.ParseDuration(strings.TrimSuffix(strings.TrimPrefix(l, k), "!"))
					if !ok {
						okAll = false
					}
					vals[k] = d.Mins
				}
			}
		}
		if !okAll || len(vals) != 3 || vals["Total: "] != wantTotal || vals["Should: "] != wantShould || vals["Diff: "] != wantTotal-wantShould {
			c.Violation("cli-total-notation", cs, fmt.Sprintf("`klog %s` (exit %d) printed\n%q\nexpected total %d, should %d, diff %d minutes", strings.Join(nd, " "), r2.Code, r2.Stdout, wantTotal, wantShould, wantTotal-wantShould))
			return
		}
	}
	// the same records spread over two input files (cut after the first record) evaluate to the same
	if parts := c02Split(text, recs); parts != nil && !now {
		// (two directories, the same file name)
		os.MkdirAll(filepath.Join(dir, "2023"), 0755)
		os.MkdirAll(filepath.Join(dir, "2024"), 0755)
		pa := clidrv.WriteFile(filepath.Join(dir, "2023"), "part.klg", parts[0])
		pb := clidrv.WriteFile(filepath.Join(dir, "2024"), "part.klg", parts[1])
		r2 := clidrv.Run(home, o, append(append([]string{}, args...), pa, pb)...)
		if r2.Panicked || r2.Code != 0 || strings.Replace(r2.Stdout, "!\n", "\n", 1) != want {
			c.Violation("cli-total-two-files", cs, fmt.Sprintf("`klog %s A B` with the records spread over two files (exit %d, panic %v) printed\n%q\nexpected\n%q", strings.Join(args, " "), r2.Code, r2.PanicVal, r2.Stdout, want))
			return
		}
		c.Count("two_file_runs", 1)
	}
	// json
	jargs := []string{"json"}
	if now {
		jargs = append(jargs, "--now")
	}
	r = clidrv.Run(home, o, append(jargs, path)...)
	var env struct {
		Records []struct {
			TotalMins       int `json:"total_mins"`
			ShouldTotalMins int `json:"should_total_mins"`
			DiffMins        int `json:"diff_mins"`
			Entries         []struct {
				TotalMins int `json:"total_mins"`
			} `json:"entries"`
		} `json:"records"`
	}
	if r.Panicked || r.Code != 0 || json.Unmarshal([]byte(r.Stdout), &env) != nil || len(env.Records) != len(recs) {
		c.Violation("cli-json", cs, fmt.Sprintf("`klog json` failed (exit %d, panic %v): %s %s", r.Code, r.PanicVal, r.Err, r.Stdout))
		return
	}
	for i, jr := range env.Records {
		should := 0
		if recs[i].HasShould {
			should = recs[i].Should
		}
		if jr.TotalMins != recs[i].Total() || jr.ShouldTotalMins != should || jr.DiffMins != recs[i].Total()-should || len(jr.Entries) != len(recs[i].Entries) {
			c.Violation("cli-json-record", cs, fmt.Sprintf("json record %d: total/should/diff %d/%d/%d, expected %d/%d/%d", i, jr.TotalMins, jr.ShouldTotalMins, jr.DiffMins, recs[i].Total(), should, recs[i].Total()-should))
			return
		}
		for j, je := range jr.Entries {
			if je.TotalMins != recs[i].Entries[j].Minutes() {
				c.Violation("cli-json-entry", cs, fmt.Sprintf("json record %d entry %d: total_mins %d, expected %d", i, j, je.TotalMins, recs[i].Entries[j].Minutes()))
				return
			}
		}
	}
	if now {
		// `klog today --now`: its All row evaluates the same records at the same instant
		r = clidrv.Run(home, o, "today", "--now", "--diff", "--decimal", "--no-style", "--no-warn", path)
		if r.Panicked || r.Code != 0 {
			c.Violation("cli-today", cs, fmt.Sprintf("`klog today --now --diff` failed (exit %d, panic %v): %s", r.Code, r.PanicVal, r.Err))
			return
		}
		found := false
		for _, l := range strings.Split(r.Stdout, "\n") {
			f := strings.Fields(l)
			if len(f) >= 4 && f[0] == "All" {
				found = true
				if f[1] != strconv.Itoa(wantTotal) || strings.TrimSuffix(f[2], "!") != strconv.Itoa(wantShould) || strings.TrimPrefix(f[3], "+") != strconv.Itoa(wantTotal-wantShould) {
					c.Violation("cli-today", cs, fmt.Sprintf("`klog today --now --diff --decimal` shows All = %s / %s / %s, expected total %d, should %d, diff %d\n%s", f[1], f[2], f[3], wantTotal, wantShould, wantTotal-wantShould, r.Stdout))
					return
				}
			}
		}
		if !found {
			c.Violation("cli-today", cs, fmt.Sprintf("`klog today --now --diff --decimal` has no All row:\n%s", r.Stdout))
		}
		return // print has no --now
	}
	// print --with-totals: the left column carries the record total on the headline and the entry value on each entry line
	r = clidrv.Run(home, o, "print", "--with-totals", "--no-style", "--no-warn", path)
	if r.Panicked || r.Code != 0 {
		c.Violation("cli-print-totals", cs, fmt.Sprintf("`klog print --with-totals` failed (exit %d, panic %v): %s", r.Code, r.PanicVal, r.Err))
		return
	}
	cols, bad := printTotalsColumn(r.Stdout)
	if bad != "" {
		c.Violation("cli-print-totals", cs, fmt.Sprintf("left column value %q is not a duration\n%s", bad, r.Stdout))
		return
	}
	var wantCols []int
	for _, rec := range recs {
		wantCols = append(wantCols, rec.Total())
		for _, e := range rec.Entries {
			wantCols = append(wantCols, e.Minutes())
		}
	}
	if fmt.Sprint(cols) != fmt.Sprint(wantCols) {
		c.Violation("cli-print-totals", cs, fmt.Sprintf("left column of print --with-totals is %v, expected %v\n%s", cols, wantCols, r.Stdout))
	}
}

// c02NowDoc builds the F3 document for one digit vector (see c02Now).
func c02NowDoc(d []int) string {
	td := c02NowToday[d[4]]
	today := sm.DayNumber(sm.Date{Y: td[0], M: td[1], D: td[2]})
	mk := func(dayOff int, variant int) string {
		dt := sm.DateLit{Date: sm.FromDayNumber(today + dayOff)}
		switch variant {
		case 0:
			return dt.String() + " (8h!)\n    1h\n    " + c02NowStarts[d[2]] + " - ? open\n"
		case 1:
			return dt.String() + "\n    " + c02NowStarts[d[2]] + "-??\n    -30m\n"
		}
		return dt.String() + "\n    2h\n" // no open range at all
	}
	return mk(c02NowDays[d[0]], d[5]) + "\n" + mk(c02NowDays[d[1]], (d[5]+1)%3)
}

// c02Follow (F4): `klog today --now --diff --follow` keeps ONE context alive and re-evaluates on every refresh.
// For a history of three refreshes - the clock advancing by 45 min and then 13 h (possibly past midnight), the file
// either unchanged or swapped for another document and back - every refresh must show exactly what a fresh
// one-shot `klog today --now --diff` shows for that file at that instant (differential oracle: state reached
// through a history vs. state reached from the initial state).
func c02Follow(c *fw.Ctx, i int) {
	n := c02NowCount()
	sched := i / n
	d := docgen.Radix(i%n, len(c02NowDays), len(c02NowDays), len(c02NowStarts), len(c02NowClock), len(c02NowToday), 3)
	td := c02NowToday[d[4]]
	clk := c02NowClock[d[3]]
	textA := c02NowDoc(d)
	d2 := append([]int{}, d...)
	d2[0], d2[1], d2[2], d2[5] = (d[0]+1)%len(c02NowDays), (d[1]+3)%len(c02NowDays), (d[2]+3)%len(c02NowStarts), (d[5]+1)%3
	textB := c02NowDoc(d2)
	t0 := dateAt(td[0], td[1], td[2], clk[0], clk[1])
	ticks := []gotime.Time{t0, t0.Add(45 * gotime.Minute), t0.Add(13*gotime.Hour + 45*gotime.Minute)}
	files := []string{textA, textA, textA}
	if sched == 1 {
		files = []string{textA, textB, textA}
	}
	cs := c02Case{Fam: "F4", I: i, Text: fw.Txt(textA), Now: t0.Format("2006-01-02 15:04")}
	c.Eval(1)
	c.Sample(func() any { return cs })
	c.Nontrivial(fw.HashMix(fw.HashString(textA+textB), uint64(i)))
	dir := fw.Scratch()
	home := clidrv.Home("home")
	path := filepath.Join(dir, "c02follow.klg")
	mk := func(follow bool) *cli.Today {
		return &cli.Today{DiffArgs: cliutil.DiffArgs{Diff: true}, NowArgs: cliutil.NowArgs{Now: true}, Follow: follow, InputFilesArgs: fileArgs(path)}
	}
	want := "\033[2J"
	wantCode, wantErr := 0, ""
	for k := range ticks {
		clidrv.WriteFile(dir, "c02follow.klg", files[k])
		r := clidrv.Exec(home, clidrv.Opts{Now: ticks[k]}, mk(false))
		if r.Panicked {
			c.Violation("panic:today:"+fw.PanicSite(r.Stack), cs, fmt.Sprintf("`klog today --now --diff` panicked at %s: %v\n%s", ticks[k].Format("2006-01-02 15:04"), r.PanicVal, r.Stack))
			return
		}
		want += "\033[H\033[J" + r.Stdout + "\nPress ^C to exit\n"
		if r.Code != 0 {
			wantCode, wantErr = r.Code, r.Err
			c.Count("follow_ends_with_error", 1)
			break
		}
	}
	clidrv.WriteFile(dir, "c02follow.klg", files[0])
	r := clidrv.Exec(home, clidrv.Opts{Now: ticks[0], TickTimes: ticks, OnTick: func(k int) { clidrv.WriteFile(dir, "c02follow.klg", files[k]) }}, mk(true))
	if r.Panicked {
		c.Violation("panic:today-follow:"+fw.PanicSite(r.Stack), cs, fmt.Sprintf("`klog today --now --diff --follow` panicked: %v\n%s", r.PanicVal, r.Stack))
		return
	}
	if r.Stdout != want || r.Code != wantCode || r.Err != wantErr {
		c.Violation("follow-differs-from-one-shot", cs, fmt.Sprintf("`klog today --now --diff --follow` over refreshes at %s/+45m/+13h45m (file %s) printed (exit %d %s)\n%q\nbut one-shot runs at those instants print (exit %d %s)\n%q",
			cs.Now, map[int]string{0: "unchanged", 1: "swapped for another document and back"}[sched], r.Code, r.Err, r.Stdout, wantCode, wantErr, want))
		return
	}
	c.Outcome("follow-ok")
}

func c02Now(c *fw.Ctx, i int) {
	d := docgen.Radix(i, len(c02NowDays), len(c02NowDays), len(c02NowStarts), len(c02NowClock), len(c02NowToday), 3)
	td := c02NowToday[d[4]]
	today := sm.DayNumber(sm.Date{Y: td[0], M: td[1], D: td[2]})
	clk := c02NowClock[d[3]]
	nowMins := clk[0]*60 + clk[1]
	text := c02NowDoc(d)
	now := dateAt(td[0], td[1], td[2], clk[0], clk[1])
	cs := c02Case{Fam: "F3", I: i, Text: fw.Txt(text), Now: now.Format("2006-01-02 15:04")}
	ref := sm.Parse(text)
	if ref.Verdict != sm.Valid {
		harnessFatal("C02 F3 generated a text the reference rejects: %q", text)
	}
	c.Eval(1)
	c.Sample(func() any { return cs })
	c.Nontrivial(fw.HashMix(fw.HashString(text), uint64(nowMins)))
	closed, ok, any := sm.CloseAt(ref.Records, today, nowMins)
	// API leg
	rs, _, errs, _, _, _ := klogParse(text)
	if len(errs) > 0 {
		c.Outcome("skipped-klog-rejects")
		return
	}
	var had bool
	var err error
	if p, v, st := tryRun(func() { had, err = service.CloseOpenRanges(now, rs...) }); p {
		c.Violation("panic:close-open-ranges:"+fw.PanicSite(st), cs, fmt.Sprintf("CloseOpenRanges panicked: %v\n%s", v, st))
		return
	}
	if ok != (err == nil) {
		c.Violation("now-closeability", cs, fmt.Sprintf("open ranges closeable at %s per the rules: %v; klog: err=%v", cs.Now, ok, err))
		return
	}
	o := clidrv.Opts{Now: now}
	if !ok {
		c.Outcome("now-refused")
		// the CLI refuses with a non-zero exit
		dir := fw.Scratch()
		path := clidrv.WriteFile(dir, "c02.klg", text)
		r := clidrv.Run(clidrv.Home("home"), o, "total", "--now", "--no-warn", path)
		if r.Panicked || r.Code == 0 {
			c.Violation("now-not-refused", cs, fmt.Sprintf("`klog total --now` must refuse (exit %d, panic %v):\n%s", r.Code, r.PanicVal, r.Stdout))
		}
		return
	}
	if had != any {
		c.Violation("now-had-open-range", cs, fmt.Sprintf("CloseOpenRanges reports closed-any=%v, expected %v", had, any))
	}
	if got, want := service.Total(rs...).InMinutes(), sm.Total(closed); got != want {
		c.Violation("now-total", cs, fmt.Sprintf("total with open ranges closed at %s: %d min, expected %d", cs.Now, got, want))
		return
	}
	c.Outcome("now-ok")
	c02CLI(c, cs, text, closed, o, true)
	_ = klog.SPEC_VERSION
	_ = strconv.Itoa
}

// printTotalsColumn reads the left column of `klog print --with-totals` (durations in front of "  |  ").
func printTotalsColumn(out string) (cols []int, bad string) {
	for _, l := range strings.Split(out, "\n") {
		k := strings.Index(l, "  |  ")
		if k < 0 {
			continue
		}
		v := strings.TrimSpace(l[:k])
		if v == "" {
			continue
		}
		d, ok := sm.ParseDuration(v)
		if !ok {
			return nil, v
		}
		cols = append(cols, d.Mins)
	}
	return cols, ""
}

// c02Split cuts a valid text after its first record (at the line after the record's last line); nil if there is
// only one record.
func c02Split(text string, recs []sm.Record) []string {
	if len(recs) < 2 {
		return nil
	}
	lines := sm.SplitLines(text)
	cut := recs[0].LastLine // 1-based last line of record 0 = number of lines in part A
	if cut <= 0 || cut >= len(lines) {
		return nil
	}
	var a, b strings.Builder
	for i, l := range lines {
		if i < cut {
			a.WriteString(l.Text + l.EOL)
		} else {
			b.WriteString(l.Text + l.EOL)
		}
	}
	return []string{a.String(), b.String()}
}

// c02Big: one large input (40 000 records, about 2.4 MB) evaluates to the same total whether it is named as a file,
// spread over two files or piped through standard input (nothing may be cut off silently on any input path).
func c02Big(c *fw.Ctx) {
	var b strings.Builder
	total, should := 0, 0
	for i := 0; i < 40000; i++ {
		d := sm.FromDayNumber(sm.DayNumber(sm.Date{Y: 1900, M: 1, D: 1}) + i)
		fmt.Fprintf(&b, "%s (%dm!)\nrecord number %d #big\n    %dm counted\n    8:00 - 8:%02d\n\n", sm.DateLit{Date: d}.String(), i%600, i, i%97, i%60)
		total += i%97 + i%60
		should += i % 600
	}
	text := b.String()
	cs := c02Case{Fam: "big", I: 0, Text: fw.Txt(fmt.Sprintf("<40000 generated records, %d bytes>", len(text)))}
	c.Eval(1)
	c.Nontrivial(fw.HashString("c02-big"))
	dir := fw.Scratch()
	home := clidrv.Home("home-nobookmarks")
	path := clidrv.WriteFile(dir, "big.klg", text)
	half := strings.Index(text[len(text)/2:], "\n\n") + len(text)/2 + 2
	pa := clidrv.WriteFile(dir, "big-a.klg", text[:half])
	pb := clidrv.WriteFile(dir, "big-b.klg", text[half:])
	want := fmt.Sprintf("Total: %d\nShould: %d!\nDiff: %d\n(In 40000 records)\n", total, should, total-should)
	for name, run := range map[string]func() clidrv.Result{
		"FILE": func() clidrv.Result {
			return clidrv.Run(home, clidrv.Opts{Now: fixedNow, NumCpus: 4}, "total", "--diff", "--decimal", "--no-style", "--no-warn", path)
		},
		"FILE-A FILE-B": func() clidrv.Result {
			return clidrv.Run(home, clidrv.Opts{Now: fixedNow}, "total", "--diff", "--decimal", "--no-style", "--no-warn", pa, pb)
		},
		"< FILE (standard input)": func() clidrv.Result {
			return clidrv.Run(home, clidrv.Opts{Now: fixedNow, OSStdin: &text}, "total", "--diff", "--decimal", "--no-style", "--no-warn")
		},
	} {
		r := run()
		if r.Panicked || r.Code != 0 || strings.Replace(r.Stdout, "!\n", "\n", 1) != strings.Replace(want, "!\n", "\n", 1) {
			c.Violation("big-input", cs, fmt.Sprintf("`klog total --diff --decimal %s` on 40000 records (exit %d, panic %v %s) printed %q, expected %q", name, r.Code, r.PanicVal, r.Err, r.Stdout, want))
			return
		}
	}
	c.Outcome("big-input-ok")
}
