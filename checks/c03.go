//go:build verif

package checks

import (
	"encoding/json"
	"fmt"
	"os"
	"path/filepath"
	"strings"

	"klogverif/clidrv"
	"klogverif/docgen"
	"klogverif/fw"
	sm "klogverif/specmodel"
)

// C03 — mutating commands touch only the lines they are defined to change.
// The oracle works on bytes and physical lines only; no parser is involved.

var c03Env = CmdEnv{Today: sm.Date{Y: 2020, M: 1, D: 1}, NowMins: 20*60 + 15}

type c03Op struct {
	op    Op
	class string // add | stop | switch | tick
}

func c03Ops() []c03Op {
	d0, dOther, dBefore, dBetween, dAfter := "2020-01-01", "1999-12-31", "1999-01-01", "2010-06-15", "2031-01-01"
	var ops []c03Op
	add := func(class string, o Op) { ops = append(ops, c03Op{o, class}) }
	for _, d := range []string{"", dOther, dBetween} {
		add("add", Op{Kind: "track", Date: d, Entry: "45m tracked #new"})
		add("add", Op{Kind: "track", Date: d, Entry: "7:00 - 7:30 three\nlines\n  of text"})
	}
	add("add", Op{Kind: "track", Date: dAfter, Entry: "-1h"})
	add("add", Op{Kind: "track", Date: dBefore, Entry: "1h"})
	add("add", Op{Kind: "start", Time: "21:00"})
	add("add", Op{Kind: "start", Time: "9:15pm", HasSum: true, Summary: "with summary #s"})
	add("add", Op{Kind: "start", Time: "21:00", HasSum: true, Summary: "multi\nline\nsummary"})
	add("add", Op{Kind: "start", Time: "21:00", Resume: true})
	add("add", Op{Kind: "start", Date: dOther, Time: "23:59"})
	add("add", Op{Kind: "start", Date: dBetween, Time: "<23:00"})
	add("add", Op{Kind: "start"})
	add("stop", Op{Kind: "stop", Time: "22:00"})
	add("stop", Op{Kind: "stop", Time: "22:00", HasSum: true, Summary: "appended text"})
	add("stop", Op{Kind: "stop", Time: "10:00pm", HasSum: true, Summary: "appended\nand a new line\nand another"})
	add("stop", Op{Kind: "stop", Time: "22:00", HasSum: true, Summary: "\nonly a new line"})
	add("stop", Op{Kind: "stop", Date: dOther, Time: "0:30>"})
	add("stop", Op{Kind: "stop"})
	add("switch", Op{Kind: "switch", Time: "22:30"})
	add("switch", Op{Kind: "switch", Time: "22:30", HasSum: true, Summary: "next\ntask"})
	add("switch", Op{Kind: "switch", Time: "22:30", Resume: true})
	add("switch", Op{Kind: "switch", Date: dOther, Time: "23:59>"})
	add("add", Op{Kind: "pause"})
	add("add", Op{Kind: "pause", HasSum: true, Summary: "break\nsecond", Ticks: []int{61, 125}})
	add("add", Op{Kind: "pause", NoTags: true, Ticks: []int{3600}})
	add("tick", Op{Kind: "pause", Extend: true, Ticks: []int{61, 125}})
	add("tick", Op{Kind: "pause", Extend: true})
	for _, d := range []string{d0, dOther, dBefore, dBetween, dAfter} {
		add("add", Op{Kind: "create", Date: d})
	}
	add("add", Op{Kind: "create", Date: dBetween, Should: "8h", HasSum: true, Summary: "New record\nsecond line #c"})
	add("add", Op{Kind: "create", Rel: "tomorrow", Should: "-30m"})
	return ops
}

// layouts: the formatting product over extra shapes with open ranges and pause entries
func c03Shapes() []docgen.Doc {
	shapes := docgen.FBShapes()
	mk := func(date string, sum []string, es ...docgen.GEntry) docgen.GRecord {
		return docgen.GRecord{Date: date, Summary: sum, Entries: es}
	}
	e := func(v string, sum ...string) docgen.GEntry { return docgen.GEntry{Value: v, Summary: sum} }
	extra := []docgen.Doc{
		{Records: []docgen.GRecord{mk("2020-01-01", nil, e("1h", "a"), e("18:00 - ?", "open #t"), e("-10m", "pause #t (planned: -10m)"), e("2h"))}},
		{Records: []docgen.GRecord{mk("1999-12-31", []string{"old"}, e("23:00-???", "late flight FRA-?", "continued ?? here")), mk("2020-01-01", nil, e("6:00am - ?"))}},
		{Records: []docgen.GRecord{mk("1999/12/31", nil, e("1h")), mk("2020/01/01", []string{"today"}, e("19:00 - ?", "", "summary only below"), e("-0m")), mk("2020/06/01", nil)}},
		{Records: []docgen.GRecord{mk("2020-01-01", nil), mk("2020-01-01", nil, e("18:30 - ?"))}},
		{Records: []docgen.GRecord{mk("2020-01-01", nil, e("17:00 - ?", "work (planned: 17:00 - ?)"), e("0m", "lunch-break at café-x"))}},
		{Records: []docgen.GRecord{mk("2020-01-01", nil, e("1h", "trailing blanks  "), e("16:00 - ?  "))}},
		{Records: []docgen.GRecord{mk("1999-12-31", nil, e("2h")), mk("2020-01-01", []string{"t"}, e("16:00-?", "summary with trailing tab\t", "and continuation  "), e("-3m", "p "))}},
		{Records: []docgen.GRecord{mk("2020-01-01", nil, e("17:00 - ????????", "long placeholder"), e("-0h05m", "padded pause")), mk("2020-02-02", nil, e("1h", "tail Caf\xe9 latin-1 \xff"))}},
		{Records: []docgen.GRecord{mk("2020-01-01", nil, e("-30m", "Lunch"), e("12:30 - ?", "work", "chapter one", "chapter two"))}},
		{Records: []docgen.GRecord{mk("2020-01-01", nil, e("15:00 - ?", "x"), e("-30m\tLunch break after a tab"), e("-0m\tq"))}},
		{Records: []docgen.GRecord{mk("2025-01-01", nil, e("1h")), mk("2020-01-01", nil, e("<22:00 - ??", "x"), e("-5m"), e("0m")), mk("1999-12-31", nil, e("20:00 - ?"))}},
	}
	return append(shapes, extra...)
}

type c03Case struct {
	Layout int    `json:"layout"`
	Op     Op     `json:"op"`
	Class  string `json:"class"`
	Before fw.Txt `json:"before"`
	Cpus   int    `json:"cpus,omitempty"`
}

func c03FB(tier fw.Tier) docgen.FB { return docgen.FB{Shapes: c03Shapes(), Full: tier == fw.Thorough} }

func c03Stride(tier fw.Tier) int {
	if tier == fw.Thorough {
		return 1
	}
	return 13
}

func init() {
	fw.Register(&fw.Check{
		ID:    "C03",
		Title: "Mutating commands touch only the lines they are defined to change",
		Rule: "LONG = every shape at the end of a 14-record file x every operation x {2, 3, 4, 8} CPUs (parallel parser behind the edit); layouts = the formatting product (indentation per record {4,3,2 spaces, tab}^2 x LF/CRLF/mixed x blank-line runs before/between/after incl. whitespace-only lines x final newline yes/no x headline gap) over " + fmt.Sprint(len(c03Shapes())) + " shapes " +
			"(1-3 records, target record first/middle/last/absent, multi-line summaries, open ranges present/absent and followed by other entries, pause entries; quick: every 13th layout, thorough: all) x " + fmt.Sprint(len(c03Ops())) + " operations " +
			"(track 1-/3-line at 5 dates; start --time/-s/multi-line/--resume/now at 3 dates; stop plain, 1-, 3-line and continuation-only summaries; switch; pause with ticks, --no-tags, --extend; create at dates before/between/after/equal with --should and 2-line summary). " +
			"A case = (layout, operation) where the command succeeds; distinct by hash(file, command line).",
		Assumptions: []string{
			"byte-level oracle on physical lines (longest common prefix/suffix of lines, then the shape allowed for the operation class: ADD = one contiguous inserted block; STOP = placeholder run replaced by one token on one line, text appended to the entry's last line, one contiguous block of new lines after it; SWITCH = STOP + one inserted block; TICK = one duration token replaced); no parser is involved",
			"a final line without line ending may gain one when lines are added after it; a blank-only file may be replaced wholesale",
			"commands run as command structs on the real context (real file I/O); every 23rd through klog.Run",
		},
		Units: func(t fw.Tier) int { return (c03FB(t).Count()/c03Stride(t)+399)/400 + 1 },
		RunUnit: func(c *fw.Ctx, unit int) {
			fb := c03FB(c.Tier)
			ops := c03Ops()
			dir := filepath.Join(fw.Scratch(), "c03")
			os.MkdirAll(dir, 0755)
			if unit == (fb.Count()/c03Stride(c.Tier)+399)/400 {
				// LONG: the same shapes at the end of a file of 14 records, edited with 2, 3, 4 and 8 CPUs (klog then reads
				// the file with the parallel parser; the line that is edited must still be the right one)
				for si := range c03Shapes() {
					before := c03LongText(si)
					for _, o := range ops {
						for _, cpus := range []int{2, 3, 4, 8} {
							c03OneCpus(c, dir, -1-si, before, o, cpus == 3, cpus)
						}
					}
					// the same shape in a file that begins with a byte-order mark (klog does not accept such a file today;
					// if a command succeeds on it, the mark is part of the first line and must survive like any other byte)
					d := c03Shapes()[si]
					d.Layout = docgen.DefaultLayout
					for _, o := range ops {
						c03OneCpus(c, dir, -1000-si, "\ufeff"+d.Text(), o, true, 1)
					}
				}
				return
			}
			n := 0
			for k := unit * 400; k < (unit+1)*400; k++ {
				li := k * c03Stride(c.Tier)
				if li >= fb.Count() {
					break
				}
				before := fb.At(li).Text()
				for _, o := range ops {
					n++
					c03One(c, dir, li, before, o, n%23 == 0)
				}
				if c.Expired() || c.ViolationCount() > 5 {
					return
				}
			}
		},
		Replay: func(c *fw.Ctx, raw json.RawMessage) {
			var cs c03Case
			if json.Unmarshal(raw, &cs) != nil {
				return
			}
			dir := filepath.Join(fw.Scratch(), "c03")
			os.MkdirAll(dir, 0755)
			cpus := cs.Cpus
			if cpus == 0 {
				cpus = 1
			}
			c03OneCpus(c, dir, cs.Layout, string(cs.Before), c03Op{cs.Op, cs.Class}, true, cpus)
		},
	})
}

// c03LongText: 12 filler records in front of shape si (default layout).
func c03LongText(si int) string {
	text := ""
	for k := 0; k < 12; k++ {
		text += fmt.Sprintf("1998-%02d-%02d\nfiller %d\n    1h #f\n    8:00 - 9:00\n\n", 1+k, 10+k, k)
	}
	d := c03Shapes()[si]
	d.Layout = docgen.DefaultLayout
	return text + d.Text()
}

func c03One(c *fw.Ctx, dir string, layout int, before string, o c03Op, viaCLI bool) {
	c03OneCpus(c, dir, layout, before, o, viaCLI, 1)
}

func c03OneCpus(c *fw.Ctx, dir string, layout int, before string, o c03Op, viaCLI bool, cpus int) {
	path := filepath.Join(dir, "t.klg")
	os.WriteFile(path, []byte(before), 0644)
	home := clidrv.Home("home")
	env := c03Env
	env.NumCpus = cpus
	var r clidrv.Result
	if viaCLI {
		r = RunOp(home, path, o.op, env)
	} else {
		r, _ = ExecOp(home, path, o.op, env)
	}
	after := clidrv.ReadFile(path)
	cs := c03Case{layout, o.op, o.class, fw.Txt(before), cpus}
	if r.Panicked {
		c.Violation("panic:"+o.op.Kind+":"+fw.PanicSite(r.Stack), cs, fmt.Sprintf("`klog %s` panicked: %v\n%s", o.op.String(), r.PanicVal, r.Stack))
		return
	}
	if r.Code != 0 {
		c.Outcome("command-fails")
		if after != before {
			c.Violation("failed-but-changed", cs, fmt.Sprintf("`klog %s` failed (exit %d) but changed the file: %q -> %q", o.op.String(), r.Code, before, after))
		}
		return
	}
	c.Eval(1)
	c.Nontrivial(fw.HashMix(fw.HashString(before), fw.HashString(o.op.String())+uint64(cpus)))
	c.Outcome("ok:" + o.class)
	if why := c03Check(o.class, before, after); why != "" {
		c.Violation("touches-other-lines:"+o.class, cs, fmt.Sprintf("`klog %s`: %s\nbefore: %q\nafter:  %q", o.op.String(), why, before, after))
		return
	}
	c.Sample(func() any { return map[string]any{"case": cs, "after": after} })
}

func onlyBlankLines(ls []sm.PLine) bool {
	for _, l := range ls {
		if !plainBlank(l.Text) {
			return false
		}
	}
	return true
}

// placeholderReplaced: a = pre + T + post [+ appended], where b = pre + "?…?" + post, T a non-empty token without blanks.
// The placeholder of an open range is the FIRST run of question marks of its line (nothing before it - indentation,
// start time, dash - can contain one); question marks further right belong to the summary and must survive.
func placeholderReplaced(b, a string, allowAppend bool) bool {
	for i := 0; i < len(b); i++ {
		if b[i] != '?' {
			continue
		}
		if i > 0 && strings.Contains(b[:i], "?") {
			break
		}
		j := i
		for j < len(b) && b[j] == '?' {
			j++
		}
		pre, post := b[:i], b[j:]
		if !strings.HasPrefix(a, pre) {
			continue
		}
		rest := a[len(pre):]
		// T = maximal run without blanks at the start of rest that leaves `post` (then optional appended text)
		for t := 1; t <= len(rest); t++ {
			if rest[t-1] == ' ' || rest[t-1] == '\t' {
				break
			}
			tail := rest[t:]
			if tail == post || (allowAppend && strings.HasPrefix(tail, post)) {
				return true
			}
		}
	}
	return false
}

func isDurationToken(s string) bool {
	d, ok := sm.ParseDuration(s)
	return ok && !d.Big
}

// tickReplaced: the two lines differ in exactly one blank-delimited token: a duration, replaced by a negative duration.
func tickReplaced(b, a string) bool {
	p := 0
	for p < len(b) && p < len(a) && b[p] == a[p] {
		p++
	}
	s := 0
	for s < len(b)-p && s < len(a)-p && b[len(b)-1-s] == a[len(a)-1-s] {
		s++
	}
	// widen to token boundaries
	lo := p
	for lo > 0 && b[lo-1] != ' ' && b[lo-1] != '\t' {
		lo--
	}
	hb, ha := len(b)-s, len(a)-s
	for hb < len(b) && b[hb] != ' ' && b[hb] != '\t' {
		hb++
		ha++
	}
	if lo > len(a) || ha > len(a) || ha < lo || hb < lo {
		return false
	}
	tb, ta := b[lo:hb], a[lo:ha]
	return b[:lo] == a[:lo] && b[hb:] == a[ha:] && strings.HasPrefix(ta, "-") && isDurationToken(tb) && isDurationToken(ta)
}

func c03Check(class, before, after string) string {
	B, A := sm.SplitLines(before), sm.SplitLines(after)
	if onlyBlankLines(B) {
		return "" // may be replaced wholesale
	}
	if before == after {
		if class == "tick" {
			return "" // no whole minute elapsed
		}
		return "the command succeeded but the file is unchanged"
	}
	// a final line without line ending may gain one when lines are added after it
	same := func(x, y sm.PLine, lastOfBefore bool, followed bool) bool {
		if x.Text != y.Text {
			return false
		}
		if x.EOL == y.EOL {
			return true
		}
		return lastOfBefore && x.EOL == "" && followed && (y.EOL == "\n" || y.EOL == "\r\n")
	}
	nb, na := len(B), len(A)
	p := 0
	for p < nb && p < na && same(B[p], A[p], p == nb-1, na > nb) {
		p++
	}
	s := 0
	for s < nb-p && s < na-p && same(B[nb-1-s], A[na-1-s], false, false) {
		s++
	}
	Rb, Ra := B[p:nb-s], A[p:na-s]
	eolOK := func(x, y sm.PLine, isLast bool) bool {
		return x.EOL == y.EOL || (isLast && x.EOL == "" && (y.EOL == "\n" || y.EOL == "\r\n"))
	}
	switch class {
	case "add":
		if len(Rb) != 0 {
			return fmt.Sprintf("existing lines were modified or removed (lines %d..%d of the original: %q)", p+1, nb-s, Rb)
		}
		if len(Ra) == 0 {
			return "nothing was added"
		}
		return ""
	case "tick":
		if len(Rb) != 1 || len(Ra) != 1 || Rb[0].EOL != Ra[0].EOL {
			return fmt.Sprintf("extending a pause must change exactly one line; changed region: %q -> %q", Rb, Ra)
		}
		if !tickReplaced(Rb[0].Text, Ra[0].Text) {
			return fmt.Sprintf("only the pause's duration token may change: %q -> %q", Rb[0].Text, Ra[0].Text)
		}
		return ""
	case "stop", "switch":
		if len(Rb) == 0 || len(Ra) < len(Rb) {
			return fmt.Sprintf("no original line was rewritten, or lines were removed; changed region: %q -> %q", Rb, Ra)
		}
		isLastLine := func(k int) bool { return p+k == nb-1 }
		// first changed line: the placeholder becomes a time (text may be appended there only if it is the entry's last line)
		allowAppendFirst := class == "stop"
		if !placeholderReplaced(Rb[0].Text, Ra[0].Text, allowAppendFirst) || !eolOK(Rb[0], Ra[0], isLastLine(0)) {
			return fmt.Sprintf("line %d: only the placeholder may be replaced (and text appended at the end): %q -> %q", p+1, Rb[0].Text, Ra[0].Text)
		}
		for k := 1; k < len(Rb); k++ {
			last := k == len(Rb)-1
			okText := Rb[k].Text == Ra[k].Text || (class == "stop" && last && strings.HasPrefix(Ra[k].Text, Rb[k].Text))
			if !okText || !eolOK(Rb[k], Ra[k], isLastLine(k)) {
				return fmt.Sprintf("line %d was altered: %q -> %q", p+k+1, Rb[k].Text+Rb[k].EOL, Ra[k].Text+Ra[k].EOL)
			}
		}
		if class == "switch" && len(Ra) == len(Rb) {
			return "switch added no new entry"
		}
		return ""
	}
	return "unknown operation class"
}
