//go:build verif

package checks

import (
	"encoding/json"
	"fmt"
	"os"
	"path/filepath"
	"strings"

	"klogverif/clidrv"
	"klogverif/docgen"
	"klogverif/fw"
	sm "klogverif/specmodel"
)

// C04 — mutating commands have exactly their intended effect over any command history.
// Explicit-state search over command histories: the state is the file's bytes.

var c04Env = CmdEnv{Today: sm.Date{Y: 2021, M: 3, D: 10}, NowMins: 14*60 + 7}

var c04Init = []string{
	"",
	"\n\n",
	"2021-03-10\n",
	"2021-03-10\nWork #day\n    8:00 - ? Coding (plan: 9:00 - ?) #proj=7 #x\n", // the summary repeats the placeholder pattern
	"2021-03-10 (8h!)\n  1h\n  9:00-?? First\n    second line #t\n",            // two-space indentation: the continuation line has four spaces
	"2021-03-08\n    2h\n\n2021-03-11\n    -30m lunch\n",
	"2021-03-01\n    1h a\n\n2021-03-09\n    22:00 - ?\n\n2021-03-20\n",
	"2021-03-10\n    1h\n\n2021-03-10\n    8:00 - ?\n",
	"2021/03/09\r\n\t1h\r\n\r\n2021/03/10\r\n\t7:00am-?\r\n",
	"2021-03-10\n    6:00 - ? #a",
	"2021-03-12\n    1h\n\n2021-03-05\n    2h\n",
	"2021-03-10\n    8:00 - ? #w\n    -5m #w\n    0m zero\n",
	"2021-03-10\n    8:00 - ?\n    0m lunch-break x-y\n",
	// a pause followed by an entry with a multi-line summary
	"2021-03-10\n    -30m Lunch\n    12:30 - ? work\n        chapter one\n        chapter two\n",
	// commands that make the file SHORTER (long placeholder, zero-padded pause value)
	"2021-03-09\n    1h\n\n2021-03-10\n    8:00 - ???????? long placeholder\n    -1h00m padded #p\n\n2021-03-11\n    2h tail\n",
}

func c04Ops() []Op {
	var ops []Op
	d0, dp, dm, df := "2021-03-10", "2021-03-11", "2021-03-09", "2021-04-19"
	for _, d := range []string{"", dp, dm, df} {
		for _, e := range []string{"1h", "-15m x", "9:00-10:00 #t", "8:00 - ?", "2h first\nsecond line"} {
			if d != "" && (e == "-15m x" || e == "2h first\nsecond line") && d != dp {
				continue
			}
			ops = append(ops, Op{Kind: "track", Date: d, Entry: e})
		}
	}
	ops = append(ops, Op{Kind: "track", Entry: "foo"}, Op{Kind: "track", Entry: "1h\n  indented more"}, Op{Kind: "track", Date: "2021/03/10", Entry: "+0m"})
	for _, t := range []string{"8:00", "23:30", "1:00>", "11:15am"} {
		ops = append(ops, Op{Kind: "start", Time: t})
	}
	ops = append(ops,
		Op{Kind: "start", Time: "8:30", HasSum: true, Summary: "\\o/ text #s"}, // (a summary that begins with a backslash)
		Op{Kind: "start", Time: "8:30", HasSum: true, Summary: "two\nlines"},
		Op{Kind: "start", Time: "12:00", Resume: true},
		Op{Kind: "start", Time: "12:00", ResumeNth: 1},
		Op{Kind: "start", Time: "12:00", ResumeNth: -1},
		Op{Kind: "start", Rel: "tomorrow"}, // now, written relative to tomorrow's record (`<`-shifted)
		Op{Kind: "start", Time: "12:00", Resume: true, HasSum: true, Summary: "conflict"},
		Op{Kind: "start", Date: dp, Time: "<23:00", Resume: true},
		Op{Kind: "start", Date: dm, Time: "9:00"},
		Op{Kind: "start"}, // now
		Op{Kind: "start", Rel: "yesterday"},
	)
	for _, t := range []string{"9:00", "7:00", "0:30>"} {
		ops = append(ops, Op{Kind: "stop", Time: t})
	}
	ops = append(ops,
		Op{Kind: "stop", Time: "15:00", HasSum: true, Summary: "done"},
		Op{Kind: "stop", Time: "15:00", HasSum: true, Summary: "done\nand more #z"},
		Op{Kind: "stop"}, // now, may fall back to yesterday
		Op{Kind: "stop", Date: dm, Time: "23:00"},
		Op{Kind: "stop", Date: d0, Time: "10:00pm"},
		Op{Kind: "switch", Time: "9:30"},
		Op{Kind: "stop", Rel: "tomorrow"},
		Op{Kind: "switch", Time: "13:00", HasSum: true, Summary: "next #n"},
		Op{Kind: "switch", Time: "13:00", Resume: true},
		Op{Kind: "switch", Time: "13:00", ResumeNth: 7},
		Op{Kind: "switch", Time: "13:00", ResumeNth: -2},
		Op{Kind: "switch"},
		Op{Kind: "create"},
		Op{Kind: "create", Date: dp},
		Op{Kind: "create", Date: dm, Should: "8h"},
		Op{Kind: "create", Date: df, HasSum: true, Summary: "Far away\nsecond #f"},
		Op{Kind: "create", Date: "2021-03-01", Should: "-30m!", HasSum: true, Summary: "x"},
		Op{Kind: "create", Rel: "tomorrow"},
		Op{Kind: "pause"},
		Op{Kind: "pause", Ticks: []int{0, 61}},
		Op{Kind: "pause", HasSum: true, Summary: "lunch", Ticks: []int{125, 60, 3600}},
		Op{Kind: "pause", HasSum: true, Summary: "a\nb", NoTags: true, Ticks: []int{-60, 30, 59}},
		Op{Kind: "pause", Extend: true, Ticks: []int{60, 120}},
		Op{Kind: "pause", Extend: true, HasSum: true, Summary: "no"},
	)
	return ops
}

// the dedicated pause family: every tick sequence of <= n deltas
var c04Deltas = []int{0, 30, 60, 61, 125, 3600, -60, 3661, 3725} // seconds since the start (61 and 62 minutes: the pause value gets an hour AND a minute part)

func c04PauseVariants() []Op {
	return []Op{{Kind: "pause"}, {Kind: "pause", HasSum: true, Summary: "lunch"}, {Kind: "pause", HasSum: true, Summary: "l1\nl2 #own", NoTags: true}, {Kind: "pause", Extend: true}}
}

func c04TickSpace(tier fw.Tier) docgen.TokenSpace {
	n := 3
	if tier == fw.Thorough {
		n = 4
	}
	return docgen.TokenSpace{Alphabet: make([]string, len(c04Deltas)), MaxLen: n}
}

type c04Case struct {
	Init     int      `json:"init"`
	History  []Op     `json:"history"`
	ViaCLI   bool     `json:"via_cli"`
	Spelling int      `json:"spelling,omitempty"` // 1 + index into the spelling-equivalence family
	Args     []string `json:"args,omitempty"`
}

// ---- the intended effect does not depend on how the command line is SPELLED: command aliases (in/out), short
// flags and the hidden flag alias --should-total must behave exactly like the canonical long spelling (same exit
// status, same bytes on disk), under every configuration. The canonical spellings are what the history search above
// compares with the model.
var c04SpellingPairs = [][2][]string{
	{{"create", "--should=7h30m!"}, {"create", "--should-total=7h30m!"}},
	{{"create", "--should=7h30m!", "--summary=New day", "--date=2021-03-15"}, {"create", "--should-total", "7h30m!", "-s", "New day", "-d", "2021-03-15"}},
	{{"create", "--should=-30m!", "--tomorrow"}, {"create", "--should-total=-30m!", "--tomorrow"}},
	{{"start", "--time=8:00", "--summary=a #t"}, {"in", "-t", "8:00", "-s", "a #t"}},
	{{"stop", "--time=22:00", "--summary=done"}, {"out", "-t", "22:00", "-s", "done"}},
	{{"start", "--round=15m"}, {"start", "-r", "15m"}},
	{{"start", "--date=2021-03-11", "--time=9:00"}, {"start", "-d", "2021-03-11", "-t", "9:00"}},
	{{"switch", "--time=16:00", "--resume"}, {"switch", "-t", "16:00", "-R"}},
	{{"start", "--time=16:00", "--resume-nth=1"}, {"start", "-t", "16:00", "-N", "1"}},
	{{"track", "--date=2021-03-11", "1h alias"}, {"track", "-d", "2021-03-11", "1h alias"}},
	{{"stop", "--yesterday", "--time=23:00"}, {"stop", "--yesterday", "-t", "23:00"}},
}

var c04SpellingConfigs = []string{"", "default_should_total = 8h!\n", "default_rounding = 30m\ndate_format = YYYY/MM/DD\n", "default_should_total = 6h!\ntime_convention = 12h\n"}

func c04Spellings(c *fw.Ctx, only int) {
	dir := filepath.Join(fw.Scratch(), "c04sp")
	os.MkdirAll(dir, 0755)
	home := clidrv.Home("home")
	path := filepath.Join(dir, "t.klg")
	n := 0
	for _, pair := range c04SpellingPairs {
		for ii, init := range c04Init {
			for ci, cfg := range c04SpellingConfigs {
				n++
				if only >= 0 && n-1 != only {
					continue
				}
				var res [2]clidrv.Result
				var after [2]string
				for k := 0; k < 2; k++ {
					os.WriteFile(path, []byte(init), 0644)
					res[k] = clidrv.Run(home, clidrv.Opts{Now: c04Env.Clock(), ConfigFile: cfg}, append(append([]string{}, pair[k]...), "--no-style", path)...)
					after[k] = clidrv.ReadFile(path)
				}
				c.Eval(1)
				c.Nontrivial(fw.HashMix(fw.HashString(strings.Join(pair[1], " ")), uint64(ii*100+ci)+1<<44))
				cs := c04Case{Init: ii, Spelling: n, Args: pair[1]}
				if res[1].Panicked {
					c.Violation("panic:spelling:"+fw.PanicSite(res[1].Stack), cs, fmt.Sprintf("`klog %s` panicked: %v\n%s", strings.Join(pair[1], " "), res[1].PanicVal, res[1].Stack))
					return
				}
				if res[0].Code != res[1].Code || after[0] != after[1] {
					c.Violation("spelling-changes-effect", cs, fmt.Sprintf("with config %q on file %q:\n`klog %s` -> exit %d, file %q\n`klog %s` -> exit %d, file %q\n(the two spellings denote the same command)",
						cfg, init, strings.Join(pair[0], " "), res[0].Code, after[0], strings.Join(pair[1], " "), res[1].Code, after[1]))
					return
				}
				if res[0].Code == 0 {
					c.Outcome("spelling-ok")
				} else {
					c.Outcome("spelling-both-fail")
				}
			}
		}
	}
}

func c04Depth(tier fw.Tier) int {
	if tier == fw.Thorough {
		return 4
	}
	return 3
}

func init() {
	fw.Register(&fw.Check{
		ID:    "C04",
		Title: "Mutating commands have exactly their intended effect over any command history",
		Rule: "explicit-state search over command histories: state = the bytes of the target file; (plus a spelling family: " + fmt.Sprint(len(c04SpellingPairs)) + " alias / short-flag spellings x all initial files x 4 configurations must have exactly the effect of the canonical spelling) " + fmt.Sprint(len(c04Init)) + " initial files (empty, blank-only, empty record, open ranges with tags / multi-line summaries, sorted with gaps, yesterday's open range, duplicate date, CRLF+tab+slash+12h style, no final newline, unsorted, existing pause entries) " +
			"x ALL sequences of <=3 (quick) / 4 (thorough) commands over a " + fmt.Sprint(len(c04Ops())) + "-command alphabet (track x entry kinds x 4 dates incl. invalid text and re-indenting continuation; start x times incl. shifted and 12h x summary/--resume/--resume-nth 1,-1,7/conflicts; stop x times incl. before start and next day x one- and two-line summaries; switch likewise; create x dates x should x two-line summary; pause plain/-s/--no-tags/--extend with tick sequences incl. clock jumps), " +
			"plus for every initial file with an open range ALL tick sequences of <=3 (quick) / 4 (thorough) deltas from {0,30,60,61,125,3600,-60 s} x 4 pause variants. The first command of every history and every 16th deeper one go through the complete CLI, the rest run the command structs directly. " +
			"states are deduplicated by hash(bytes, remaining depth); distinct_nontrivial counts distinct file states reached.",
		Assumptions: []string{
			"abstract command model (checks/cmdmodel.go, from the commands' documentation and DESIGN Appendix B) applied to specmodel's reading of the file before; compared by value (dates, should-totals, summaries, entry kinds, minute values, order) with specmodel's reading of the file after; klog's own parser must accept the result too",
			"the clock is fixed (2021-03-10 14:07) for commands without --time; the per-minute behaviour of the clock is C17's subject",
			"new-record position: exact for ascending-sorted files, any position that keeps the old records' order otherwise; --resume from the previous record is a don't-care when several records share the latest earlier date",
		},
		Units: func(t fw.Tier) int { return len(c04Init)*len(c04Ops()) + c04PauseUnits(t) + 2 },
		RunUnit: func(c *fw.Ctx, unit int) {
			ops := c04Ops()
			if unit == len(c04Init)*len(ops)+c04PauseUnits(c.Tier) {
				c04Spellings(c, -1)
				return
			}
			if unit == len(c04Init)*len(ops)+c04PauseUnits(c.Tier)+1 {
				c04Ends(c)
				c04Clocks(c)
				return
			}
			if unit >= len(c04Init)*len(ops) {
				c04PauseUnit(c, unit-len(c04Init)*len(ops))
				return
			}
			x := &c04Explorer{c: c, init: unit / len(ops), ops: ops, visited: map[uint64]bool{}}
			x.dir = filepath.Join(fw.Scratch(), "c04")
			os.MkdirAll(x.dir, 0755)
			x.home = clidrv.Home("home")
			first := ops[unit%len(ops)]
			after, ok := x.step(c04Init[x.init], []Op{first}, true)
			if ok {
				x.explore(after, []Op{first}, c04Depth(c.Tier)-1)
			}
		},
		Replay: func(c *fw.Ctx, raw json.RawMessage) {
			var cs c04Case
			if json.Unmarshal(raw, &cs) != nil {
				return
			}
			if cs.Spelling > 0 {
				c04Spellings(c, cs.Spelling-1)
				return
			}
			if cs.Init <= -100 {
				c04Clocks(c)
				return
			}
			x := &c04Explorer{c: c, init: cs.Init, visited: map[uint64]bool{}}
			x.dir = filepath.Join(fw.Scratch(), "c04")
			os.MkdirAll(x.dir, 0755)
			x.home = clidrv.Home("home")
			state := c04InitText(cs.Init)
			for i := range cs.History {
				var ok bool
				state, ok = x.step(state, cs.History[:i+1], cs.ViaCLI || i == 0)
				if !ok {
					return
				}
			}
		},
		Finalize: func(r *fw.Result) {
			if r.Extra == nil {
				r.Extra = map[string]any{}
			}
			r.Extra["traces_validated_against_impl"] = r.Counters["transitions"]
			r.Extra["states"] = r.DistinctN
		},
	})
}

type c04Explorer struct {
	c         *fw.Ctx
	init      int
	ops       []Op
	dir, home string
	visited   map[uint64]bool
	n         int
	env       *CmdEnv // nil = c04Env
}

func (x *c04Explorer) explore(state string, hist []Op, depth int) {
	if depth == 0 || x.c.Expired() {
		return
	}
	key := fw.HashMix(fw.HashString(state), uint64(depth))
	if x.visited[key] {
		return
	}
	x.visited[key] = true
	for _, o := range x.ops {
		h := append(append([]Op{}, hist...), o)
		x.n++
		after, ok := x.step(state, h, x.n%16 == 0)
		if ok && after != state {
			x.explore(after, h, depth-1)
		}
		if x.c.ViolationCount() > 0 {
			return
		}
	}
}

// step applies the last command of hist to the file `before` and checks the transition.
// It returns the bytes afterwards and whether exploration may continue from there.
func (x *c04Explorer) step(before string, hist []Op, viaCLI bool) (string, bool) {
	c := x.c
	o := hist[len(hist)-1]
	cs := func() c04Case { return c04Case{Init: x.init, History: hist, ViaCLI: viaCLI} }
	path := filepath.Join(x.dir, "target.klg")
	os.WriteFile(path, []byte(before), 0644)
	refBefore := sm.ParseLenient(before)
	if refBefore.Verdict != sm.Valid {
		c.Outcome("state-outside-model:" + refBefore.Verdict.String())
		return before, false
	}
	env := c04Env
	if x.env != nil {
		env = *x.env
	}
	m := o.Apply(refBefore.Records, env)
	var r clidrv.Result
	if viaCLI {
		r = RunOp(x.home, path, o, env)
	} else {
		var okFlags bool
		r, okFlags = ExecOp(x.home, path, o, env)
		if !okFlags {
			// the flag values are invalid: only the complete CLI can tell how that is reported
			r = RunOp(x.home, path, o, env)
		}
	}
	after := clidrv.ReadFile(path)
	c.Eval(1)
	c.Count("transitions", 1)
	c.NontrivialString(after)
	hs := func() string {
		var s []string
		for _, h := range hist {
			s = append(s, "klog "+h.String())
		}
		return fmt.Sprintf("initial file %q; history: %s", c04InitText(x.init), strings.Join(s, " ; "))
	}
	if r.Panicked {
		c.Violation("panic:"+o.Kind+":"+fw.PanicSite(r.Stack), cs(), fmt.Sprintf("`klog %s` panicked on %q: %v\n%s\n%s", o.String(), before, r.PanicVal, r.Stack, hs()))
		return after, false
	}
	if m.DontCare != "" {
		c.Outcome("dont-care")
		return after, r.Code == 0
	}
	if !m.OK {
		c.Outcome("rejected:" + o.Kind)
		if r.Code == 0 {
			c.Violation("should-fail:"+o.Kind, cs(), fmt.Sprintf("the model rejects `klog %s` (%s) but the command succeeded.\nfile before: %q\nfile after:  %q\n%s", o.String(), m.Why, before, after, hs()))
			return after, false
		}
		if after != before {
			c.Violation("failed-but-changed:"+o.Kind, cs(), fmt.Sprintf("`klog %s` failed (exit %d) but changed the file.\nbefore: %q\nafter:  %q\n%s", o.String(), r.Code, before, after, hs()))
			return after, false
		}
		return after, false
	}
	c.Outcome("ok:" + o.Kind)
	if r.Code != 0 {
		c.Violation("should-succeed:"+o.Kind, cs(), fmt.Sprintf("`klog %s` failed (exit %d: %s) although the model accepts it.\nfile: %q\n%s", o.String(), r.Code, strings.TrimSpace(r.Err), before, hs()))
		return after, false
	}
	refAfter := sm.ParseLenient(after)
	if refAfter.Verdict != sm.Valid {
		c.Violation("result-invalid:"+o.Kind, cs(), fmt.Sprintf("`klog %s` succeeded but left a file the reference parser does not accept (%v, line %d: %s).\nbefore: %q\nafter:  %q\n%s", o.String(), refAfter.Verdict, refAfter.Line, refAfter.Rule, before, after, hs()))
		return after, false
	}
	if !matchesModel(refAfter.Records, m) {
		c.Violation("effect:"+o.Kind, cs(), fmt.Sprintf("`klog %s` did not have exactly the intended effect.\nbefore: %q\nafter:  %q\nexpected records:\n%sfound records:\n%s%s", o.String(), before, after, valueCanon(m.Records), valueCanon(refAfter.Records), hs()))
		return after, false
	}
	if _, _, errs, p, _, _ := klogParse(after); p || len(errs) > 0 {
		c.Violation("result-rejected-by-klog:"+o.Kind, cs(), fmt.Sprintf("klog cannot re-read the file it wrote: %s\n%q\n%s", errSummary(errs), after, hs()))
		return after, false
	}
	c.Sample(func() any { return map[string]any{"history": hist, "before": before, "after": after} })
	return after, true
}

// ---- the pause family: all tick sequences

func c04PauseStates() []int {
	var out []int
	for i, s := range c04Init {
		r := sm.ParseLenient(s)
		for _, rec := range r.Records {
			d := sm.DayNumber(rec.Date.Date)
			if rec.OpenRange() >= 0 && (d == sm.DayNumber(c04Env.Today) || d == sm.DayNumber(c04Env.Today)-1) {
				out = append(out, i)
				break
			}
		}
	}
	return out
}

func c04PauseUnits(t fw.Tier) int { return len(c04PauseStates()) * len(c04PauseVariants()) }

func c04PauseUnit(c *fw.Ctx, unit int) {
	states := c04PauseStates()
	vs := c04PauseVariants()
	x := &c04Explorer{c: c, init: states[unit/len(vs)], visited: map[uint64]bool{}}
	x.dir = filepath.Join(fw.Scratch(), "c04")
	os.MkdirAll(x.dir, 0755)
	x.home = clidrv.Home("home")
	ts := c04TickSpace(c.Tier)
	for i := 0; i < ts.Count(); i++ {
		o := vs[unit%len(vs)]
		for _, d := range ts.Digits(i) {
			o.Ticks = append(o.Ticks, c04Deltas[d])
		}
		// ticks are cumulative readings of the clock: later readings may be smaller (the clock jumps back)
		x.step(c04Init[x.init], []Op{o}, i%64 == 0)
		if c.ViolationCount() > 0 || c.Expired() {
			return
		}
	}
}

// ---- the two ends of the representable calendar as explicit target dates

var c04EndsInit = []string{
	"0000-01-01\n    1:00 - ?\n",
	"0000-01-01\n    1h\n\n0000-01-02\n    8:00 - ? x\n",
	"9999-12-31\n    1:00 - ?\n",
	"9999-12-30\n    8:00 - ?\n\n9999-12-31\n    1h\n",
	"2021-03-10\n    1h\n",
}

func c04InitText(i int) string {
	if i <= -100 {
		return c04ClockInit[i]
	}
	if i < 0 {
		return c04EndsInit[-1-i]
	}
	return c04Init[i]
}

// c04Ends: every command with an explicit --date at (or next to) the first / last representable date, on files
// whose records lie there; the clock stays at its ordinary reading. The model decides as everywhere else.
// c04Clocks: the same model under other clock readings - the day after / the day of a daylight-saving transition
// (clidrv expresses readings on these days in Europe/Berlin: "24 hours ago" is not "yesterday"), and a pause that
// keeps running past midnight.
func c04Clocks(c *fw.Ctx) {
	type sc struct {
		env  CmdEnv
		init string
		ops  []Op
	}
	rel := func() []Op {
		var ops []Op
		for _, r := range []string{"yesterday", "tomorrow", "today"} {
			ops = append(ops, Op{Kind: "track", Rel: r, Entry: "1h dst"}, Op{Kind: "start", Rel: r}, Op{Kind: "create", Rel: r}, Op{Kind: "stop", Rel: r})
		}
		return ops
	}
	var scs []sc
	for _, day := range []sm.Date{{Y: 2024, M: 4, D: 1}, {Y: 2024, M: 10, D: 27}} {
		n := sm.DayNumber(day)
		d := func(off int) string { return sm.DateLit{Date: sm.FromDayNumber(n + off)}.String() }
		for _, mins := range []int{30, 12 * 60, 23*60 + 30} {
			scs = append(scs,
				sc{CmdEnv{Today: day, NowMins: mins}, d(-2) + "\n    1h\n\n" + d(-1) + "\n    0:10 - ?\n\n" + d(0) + "\n    2h\n\n" + d(1) + "\n    3h\n", rel()},
				sc{CmdEnv{Today: day, NowMins: mins}, d(-3) + "\n    1h\n", rel()})
		}
	}
	// an explicit --date without --time: no fallback to the day before; and given summaries that end in blanks
	for _, init := range []string{"2021-03-09\n    22:00 - ? late\n", "2021-03-09\n    22:00 - ?\n\n2021-03-11\n    1h\n", "2021-03-10\n    8:00 - ?\n"} {
		scs = append(scs, sc{c04Env, init, []Op{
			{Kind: "stop", Date: "2021-03-10"}, {Kind: "stop", Date: "2021-03-11"}, {Kind: "stop", Date: "2021-03-09"}, {Kind: "switch", Date: "2021-03-10"},
			{Kind: "track", Entry: "2h Meeting  "}, {Kind: "track", Entry: "2h Research: \nsecond line \t"}, {Kind: "start", Time: "15:00", HasSum: true, Summary: "ends in blanks  "},
			{Kind: "stop", Time: "23:30", HasSum: true, Summary: "done "},
		}})
	}
	// a pause over midnight: the target record is the one found when the command started
	for _, init := range []string{"2021-03-09\n    22:00 - ? late #n\n", "2021-03-10\n    22:00 - ?\n", "2021-03-09\n    1h\n\n2021-03-10\n    23:00 - ? x\n    -2m\n"} {
		scs = append(scs, sc{CmdEnv{Today: sm.Date{Y: 2021, M: 3, D: 10}, NowMins: 23*60 + 58}, init,
			[]Op{{Kind: "pause", Ticks: []int{61, 125, 190}}, {Kind: "pause", Extend: true, Ticks: []int{61, 125, 190}}, {Kind: "pause", HasSum: true, Summary: "nap", Ticks: []int{130, 3725}}}})
	}
	for k, s := range scs {
		env := s.env
		x := &c04Explorer{c: c, init: -100 - k, visited: map[uint64]bool{}, env: &env}
		x.dir = filepath.Join(fw.Scratch(), "c04c")
		os.MkdirAll(x.dir, 0755)
		x.home = clidrv.Home("home")
		c04ClockInit[-100-k] = s.init
		for _, o := range s.ops {
			x.step(s.init, []Op{o}, true)
			if c.ViolationCount() > 3 {
				return
			}
		}
	}
}

var c04ClockInit = map[int]string{}

func c04Ends(c *fw.Ctx) {
	var ops []Op
	for _, d := range []string{"0000-01-01", "0000-01-02", "9999-12-30", "9999-12-31"} {
		ops = append(ops,
			Op{Kind: "stop", Date: d, Time: "2:00"},
			Op{Kind: "stop", Date: d, Time: "9:00", HasSum: true, Summary: "done"},
			Op{Kind: "start", Date: d, Time: "3:00"},
			Op{Kind: "switch", Date: d, Time: "10:00"},
			Op{Kind: "track", Date: d, Entry: "45m at the edge"},
			Op{Kind: "track", Date: d, Entry: "<23:00 - 0:30>"},
			Op{Kind: "create", Date: d},
			Op{Kind: "create", Date: d, Should: "8h"},
		)
	}
	for k, init := range c04EndsInit {
		x := &c04Explorer{c: c, init: -1 - k, visited: map[uint64]bool{}}
		x.dir = filepath.Join(fw.Scratch(), "c04e")
		os.MkdirAll(x.dir, 0755)
		x.home = clidrv.Home("home")
		for _, o := range ops {
			after, ok := x.step(init, []Op{o}, true)
			if ok {
				for _, o2 := range ops {
					x.step(after, []Op{o, o2}, false)
				}
			}
			if c.ViolationCount() > 3 {
				return
			}
		}
	}
}
