//go:build verif

package checks

import (
	"encoding/json"
	"fmt"
	"os"
	"path/filepath"
	"sort"
	"strings"
	"sync"
	gotime "time"

	"klogverif/clidrv"
	"klogverif/docgen"
	"klogverif/fw"
	sm "klogverif/specmodel"
)

// C05 — a mutating command either leaves a valid file or leaves the file untouched.

var (
	c05FilesOnce sync.Once
	c05FilesV    []string
)

// c05Files: the C04 initial files, every single-edit variant of them (valid and invalid), and a few
// unreadable ones.
func c05Files() []string {
	c05FilesOnce.Do(func() {
		seen := map[string]bool{}
		add := func(s string) {
			if !seen[s] {
				seen[s] = true
				c05FilesV = append(c05FilesV, s)
			}
		}
		for _, s := range c04Init {
			add(s)
		}
		for _, s := range c04Init {
			b, ok := docgen.NewBase(s)
			if !ok {
				continue
			}
			for _, e := range b.Edits {
				add(b.Apply(e))
			}
		}
		add("2021-03-10\n    8:00 - ?\n    \xff\xfe broken utf8\n")
		add("\xff")
		add("2021-03-10\n    8:00 - ? x\r\r\n")
		add("not a klog file at all")
	})
	return c05FilesV
}

func c05Ops() []Op {
	ops := c04Ops()
	ops = append(ops,
		Op{Kind: "stop", Date: "2019-01-01", Time: "9:00"},
		Op{Kind: "switch", Date: "2019-01-01", Time: "9:00"},
		Op{Kind: "stop", Time: "<1:00"},
		Op{Kind: "track", Entry: "8:00 - ?\n\n"},
		Op{Kind: "track", Entry: "1h\n\tx"},
		Op{Kind: "track", Entry: " 1h"},
		Op{Kind: "track", Entry: "1h\n        8 spaces"},
		Op{Kind: "track", Entry: "2021-03-11"},
		Op{Kind: "start", Time: "25:00"},
		Op{Kind: "start", Round: "7m"},
		Op{Kind: "create", Date: "2021-02-30"},
		Op{Kind: "create", Should: "abc"},
		Op{Kind: "create", HasSum: true, Summary: " leading blank"},
		Op{Kind: "switch", Time: "13:00", Resume: true, ResumeNth: 1},
		Op{Kind: "pause", Extend: true, Ticks: []int{600}},
		// pauses that run past the hour: the value gets an hour and a minute part and is extended again
		Op{Kind: "pause", Ticks: []int{3600, 3661, 3725}},
		Op{Kind: "pause", Extend: true, Ticks: []int{3661, 3725, 7260}},
		// a number beyond the representable range (known finding: klog panics on it; it must at least not report success)
		Op{Kind: "track", Entry: "99999999999999999999h"},
	)
	return ops
}

type c05Case struct {
	File   int    `json:"file"`
	Op     Op     `json:"op"`
	Before fw.Txt `json:"before"`
	Env    *int   `json:"env,omitempty"`   // index into the ENV family
	Event  string `json:"event,omitempty"` // what happened to the file between two refreshes
}

func init() {
	fw.Register(&fw.Check{
		ID:    "C05",
		Title: "A mutating command either leaves a valid file or leaves the file untouched",
		Rule: "files = the initial files of C04 plus EVERY single edit of them from the " + fmt.Sprint(len(docgen.Ops)) + "-operator fault catalogue (valid and invalid results: malformed dates/headlines, wrong/mixed indentation, malformed values, second open range, blank line inside a record, stray text, …) plus files with invalid UTF-8 / stray CR / no klog content; " +
			"x " + fmt.Sprint(len(c05Ops())) + " commands (those of C04 plus 15 failure-directed ones: unknown --date for stop/switch, end before start, entry text that is no entry / re-indents / contains a blank line, invalid flag values, switch whose second step fails, pause --extend without pause); quick: every 3rd file. " +
			"All through klog.Run (real exit status, real write path). " +
			"Plus PAIRS = every pair of catalogue edits on two different lines of each initial file (" + fmt.Sprint(c05PairCount()) + " files; quick: every 8th) x the same commands, command struct on the real context and real write path (commands whose flag values the CLI would reject are skipped there; the single-edit family runs them through klog.Run). " +
			"Plus ENV = `klog pause` / `pause --extend` running over three minute boundaries on every initial file with a pausable open range, with ONE external change of the file injected before refresh 0, 1 or 2 " +
			"(made unparseable; the record replaced by an unrelated one; a valid record appended): an unusable file must make the command fail and stay exactly as the external change left it, an appended record must survive (result = the undisturbed run's result + the appended text). " +
			"Plus TARGETS = every command x every initial file addressed (a) through the default bookmark with unrelated text piped on standard input (must behave exactly as with the file named explicitly), (b) as a path that does not exist, a directory, an unknown bookmark (must fail with a message, non-zero status, nothing created). " +
			"A case = (file, command); distinct by hash of both.",
		Assumptions: []string{
			"exit 0 => the file afterwards is accepted by klog's parser and by the reference parser (lenient reading of klog's own don't-care zones); exit != 0 => bytes identical and no other file appeared in the directory; a panic is a violation",
			"I/O faults and crash points are not part of this property's quantifier",
		},
		Units: func(t fw.Tier) int { return len(c05Files()) + (c05PairCount()+c05PairChunk-1)/c05PairChunk + 2 },
		RunUnit: func(c *fw.Ctx, unit int) {
			if unit == len(c05Files())+(c05PairCount()+c05PairChunk-1)/c05PairChunk {
				for i := 0; i < c05EnvCount(); i++ {
					c05Env(c, i)
				}
				return
			}
			if unit == len(c05Files())+(c05PairCount()+c05PairChunk-1)/c05PairChunk+1 {
				c05Targets(c, -1)
				return
			}
			if unit >= len(c05Files()) {
				lo := (unit - len(c05Files())) * c05PairChunk
				for i := lo; i < lo+c05PairChunk && i < c05PairCount() && !c.Expired(); i++ {
					if c.Tier == fw.Quick && i%8 != 0 {
						continue
					}
					before := c05PairFile(i)
					for _, o := range c05Ops() {
						c05One(c, -1-i, before, o)
					}
				}
				return
			}
			if c.Tier == fw.Quick && unit%3 != 0 && unit >= len(c04Init) {
				return
			}
			for _, o := range c05Ops() {
				c05One(c, unit, c05Files()[unit], o)
			}
		},
		Replay: func(c *fw.Ctx, raw json.RawMessage) {
			var cs c05Case
			if json.Unmarshal(raw, &cs) == nil {
				if cs.Env != nil && cs.Event == "target" {
					c05Targets(c, *cs.Env)
					return
				}
				if cs.Env != nil {
					c05Env(c, *cs.Env)
					return
				}
				c05One(c, cs.File, string(cs.Before), cs.Op)
			}
		},
	})
}

const c05PairChunk = 400

var (
	c05PairOnce  sync.Once
	c05PairBases []*docgen.Base
	c05PairOff   []int // first pair index of each base
	c05PairList  [][][2]int
	c05PairTotal int
)

func c05PairInit() {
	c05PairOnce.Do(func() {
		for _, s := range c04Init {
			b, ok := docgen.NewBase(s)
			if !ok {
				continue
			}
			var ps [][2]int
			for i := range b.Edits {
				for j := i + 1; j < len(b.Edits); j++ {
					if b.Edits[i].Line != b.Edits[j].Line {
						ps = append(ps, [2]int{i, j})
					}
				}
			}
			c05PairBases = append(c05PairBases, b)
			c05PairOff = append(c05PairOff, c05PairTotal)
			c05PairList = append(c05PairList, ps)
			c05PairTotal += len(ps)
		}
	})
}

func c05PairCount() int { c05PairInit(); return c05PairTotal }

func c05PairFile(i int) string {
	c05PairInit()
	k := len(c05PairOff) - 1
	for c05PairOff[k] > i {
		k--
	}
	p := c05PairList[k][i-c05PairOff[k]]
	b := c05PairBases[k]
	return b.Apply(b.Edits[p[0]], b.Edits[p[1]])
}

func c05One(c *fw.Ctx, fi int, before string, o Op) {
	dir := filepath.Join(fw.Scratch(), "c05")
	os.RemoveAll(dir)
	os.MkdirAll(dir, 0755)
	path := filepath.Join(dir, "target.klg")
	os.WriteFile(path, []byte(before), 0644)
	var r clidrv.Result
	if fi < 0 {
		// PAIRS family: the command struct on the real context
		var ok bool
		if r, ok = ExecOp(clidrv.Home("home"), path, o, c04Env); !ok {
			return
		}
	} else {
		r = RunOp(clidrv.Home("home"), path, o, c04Env)
	}
	after := clidrv.ReadFile(path)
	cs := c05Case{File: fi, Op: o, Before: fw.Txt(before)}
	c.Eval(1)
	c.Nontrivial(fw.HashMix(fw.HashString(before), fw.HashString(o.String())))
	if r.Panicked {
		c.Violation("panic:"+o.Kind+":"+fw.PanicSite(r.Stack), cs, fmt.Sprintf("`klog %s` panicked on %q: %v\n%s", o.String(), before, r.PanicVal, r.Stack))
		return
	}
	ents, _ := os.ReadDir(dir)
	var names []string
	for _, e := range ents {
		names = append(names, e.Name())
	}
	sort.Strings(names)
	if len(names) != 1 || names[0] != "target.klg" {
		c.Violation("stray-files", cs, fmt.Sprintf("`klog %s` left these files in the directory: %v", o.String(), names))
		return
	}
	if r.Code == 0 && strings.TrimSpace(r.Err) != "" {
		c.Violation("error-with-exit-0", cs, fmt.Sprintf("`klog %s` reported an error but the exit status is 0:\n%s", o.String(), strings.TrimSpace(r.Err)))
		return
	}
	if r.Code != 0 {
		c.Outcome("fails")
		if after != before {
			c.Violation("failed-but-changed", cs, fmt.Sprintf("`klog %s` reported failure (exit %d: %s) but the file changed.\nbefore: %q\nafter:  %q", o.String(), r.Code, strings.TrimSpace(r.Err), before, after))
		}
		if strings.TrimSpace(r.Err) == "" {
			c.Violation("failure-without-message", cs, fmt.Sprintf("`klog %s` exited %d without an error message", o.String(), r.Code))
		}
		return
	}
	c.Outcome("succeeds")
	if _, _, errs, p, _, _ := klogParse(after); p || len(errs) > 0 {
		c.Violation("success-but-invalid", cs, fmt.Sprintf("`klog %s` reported success but the file does not parse: %s\nbefore: %q\nafter:  %q", o.String(), errSummary(errs), before, after))
		return
	}
	if ref := sm.ParseLenient(after); ref.Verdict == sm.Invalid && !ref.ZsBlank {
		c.Violation("success-but-invalid-reference", cs, fmt.Sprintf("`klog %s` reported success but the file breaks the specification (line %d: %s)\nbefore: %q\nafter:  %q", o.String(), ref.Line, ref.Rule, before, after))
		return
	}
	c.Sample(func() any { return map[string]any{"case": cs, "after": after} })
}

// ---- ENV: the file changes under a running `klog pause` (one external event between two refreshes)

var c05EnvEvents = []string{"unparseable", "record-gone", "record-appended"}
var c05EnvOps = []Op{{Kind: "pause", Ticks: []int{61, 125, 190}}, {Kind: "pause", Extend: true, Ticks: []int{61, 125, 190}}, {Kind: "pause", HasSum: true, Summary: "break", Ticks: []int{61, 3661, 3725}}}

func c05EnvCount() int { return len(c04PauseStates()) * len(c05EnvOps) * len(c05EnvEvents) * 3 }

func c05Env(c *fw.Ctx, i int) {
	d := docgen.Radix(i, len(c04PauseStates()), len(c05EnvOps), len(c05EnvEvents), 3)
	before := c04Init[c04PauseStates()[d[0]]]
	o := c05EnvOps[d[1]]
	event, at := c05EnvEvents[d[2]], d[3]
	dir := filepath.Join(fw.Scratch(), "c05env")
	os.RemoveAll(dir)
	os.MkdirAll(dir, 0755)
	path := filepath.Join(dir, "target.klg")
	home := clidrv.Home("home")
	idx := i
	cs := c05Case{File: -1, Op: o, Before: fw.Txt(before), Env: &idx, Event: fmt.Sprintf("%s before refresh %d", event, at)}
	c.Eval(1)
	c.Nontrivial(fw.HashMix(fw.HashString(before+o.String()), uint64(i)+1<<45))
	// the undisturbed run
	os.WriteFile(path, []byte(before), 0644)
	r0 := RunOp(home, path, o, c04Env)
	final0 := clidrv.ReadFile(path)
	if r0.Panicked || r0.Code != 0 {
		c.Outcome("env-base-fails") // e.g. --extend without a pause entry: nothing to disturb
		return
	}
	// the disturbed run
	os.WriteFile(path, []byte(before), 0644)
	external, appended := "", "\n2031-01-01\n    1h external\n"
	env := c04Env
	env.OnTick = func(k int) {
		if k != at {
			return
		}
		cur := clidrv.ReadFile(path)
		switch event {
		case "unparseable":
			external = cur + "\nthis is not a record\n"
		case "record-gone":
			external = "2001-01-01\n    1h unrelated\n"
		default:
			external = cur
			if !strings.HasSuffix(cur, "\n") {
				external += "\n"
			}
			external += appended
		}
		os.WriteFile(path, []byte(external), 0644)
	}
	r := RunOp(home, path, o, env)
	after := clidrv.ReadFile(path)
	if r.Panicked {
		c.Violation("panic:pause-env:"+fw.PanicSite(r.Stack), cs, fmt.Sprintf("`klog %s` panicked when the file changed under it: %v\n%s", o.String(), r.PanicVal, r.Stack))
		return
	}
	switch event {
	case "unparseable", "record-gone":
		// is there still a write due after the event? (the pause value changes at every refresh of these schedules)
		if r.Code == 0 {
			c.Violation("env-failure-not-reported", cs, fmt.Sprintf("the file was made unusable (%s) under a running `klog %s`, yet the command reports success.\nexternal content: %q\nfile afterwards:  %q", cs.Event, o.String(), external, after))
			return
		}
		if after != external {
			c.Violation("env-failed-but-changed", cs, fmt.Sprintf("`klog %s` failed (exit %d) after the file was changed externally (%s), but did not leave the file untouched.\nexternal content: %q\nfile afterwards:  %q", o.String(), r.Code, cs.Event, external, after))
			return
		}
		c.Outcome("env-fails-untouched")
	default:
		want := final0
		if !strings.HasSuffix(want, "\n") {
			want += "\n"
		}
		want += appended
		if r.Code != 0 || after != want {
			c.Violation("env-external-edit-lost", cs, fmt.Sprintf("a record was appended to the file under a running `klog %s` (%s); exit %d, file afterwards\n%q\nexpected the undisturbed result plus the appended record\n%q", o.String(), cs.Event, r.Code, after, want))
			return
		}
		if _, _, errs, p, _, _ := klogParse(after); p || len(errs) > 0 {
			c.Violation("success-but-invalid", cs, fmt.Sprintf("`klog %s` reported success but the file does not parse: %s", o.String(), errSummary(errs)))
			return
		}
		c.Outcome("env-edit-survives")
	}
}

// ---- TARGETS: how the target file is addressed

func c05Targets(c *fw.Ctx, only int) {
	dir := filepath.Join(fw.Scratch(), "c05t")
	os.RemoveAll(dir)
	os.MkdirAll(filepath.Join(dir, "a directory"), 0755)
	path := filepath.Join(dir, "target.klg")
	home := clidrv.Home("home")
	bhome := clidrv.Home("home-with-default-bookmark")
	os.WriteFile(path, []byte("2021-03-10\n"), 0644)
	if r := clidrv.Run(bhome, clidrv.Opts{Now: c04Env.Clock()}, "bookmarks", "set", path); r.Code != 0 {
		harnessFatal("C05 TARGETS: cannot set the default bookmark: %s", r.Err)
	}
	piped := "this text is piped into klog\nand is not a klog file\n"
	n := 0
	for fi, before := range c04Init {
		for _, o := range c05Ops() {
			n++
			if only >= 0 && n-1 != only {
				continue
			}
			idx := n - 1
			cs := c05Case{File: fi, Op: o, Before: fw.Txt(before), Env: &idx, Event: "target"}
			c.Eval(1)
			c.Nontrivial(fw.HashMix(fw.HashString(before+o.String()), uint64(idx)+1<<46))
			// (a) explicit file vs default bookmark + piped stdin
			os.WriteFile(path, []byte(before), 0644)
			r0 := RunOp(home, path, o, c04Env)
			after0 := clidrv.ReadFile(path)
			if r0.Panicked {
				continue // reported (once) by the file x command family
			}
			os.WriteFile(path, []byte(before), 0644)
			args := o.Args(path)
			args = args[:len(args)-1] // no file argument: the default bookmark is the target
			opts := clidrv.Opts{Now: c04Env.Clock(), ConfigFile: c04Env.ConfigFile(), OSStdin: &piped}
			for _, t := range o.Ticks {
				opts.TickTimes = append(opts.TickTimes, c04Env.Clock().Add(gotime.Duration(t)*gotime.Second))
			}
			r1 := clidrv.Run(bhome, opts, args...)
			after1 := clidrv.ReadFile(path)
			if r1.Panicked {
				c.Violation("panic:target:"+fw.PanicSite(r1.Stack), cs, fmt.Sprintf("`klog %s` on the default bookmark panicked: %v\n%s", strings.Join(args, " "), r1.PanicVal, r1.Stack))
				return
			}
			if !r0.Panicked && (r0.Code != r1.Code || after0 != after1) {
				c.Violation("target-addressing-changes-effect", cs, fmt.Sprintf("`klog %s` with the file named explicitly: exit %d, file %q\nthe same command on the default bookmark with unrelated text piped on standard input: exit %d (%s), file %q", o.String(), r0.Code, after0, r1.Code, strings.TrimSpace(r1.Err), after1))
				return
			}
			if r1.Code != 0 && after1 != before {
				c.Violation("failed-but-changed", cs, fmt.Sprintf("`klog %s` on the default bookmark failed (exit %d) but the file changed: %q -> %q", strings.Join(args, " "), r1.Code, before, after1))
				return
			}
			// (b) targets that cannot be used
			if fi == 0 {
				for _, bad := range []string{filepath.Join(dir, "missing.klg"), filepath.Join(dir, "a directory"), "@nope", filepath.Join(dir, "no such dir", "x.klg")} {
					rb := RunOp(home, bad, o, c04Env)
					ents, _ := os.ReadDir(dir)
					if rb.Panicked || rb.Code == 0 || strings.TrimSpace(rb.Err) == "" || len(ents) != 2 {
						c.Violation("unusable-target", cs, fmt.Sprintf("`klog %s` on a target that cannot be used (%s): exit %d, panic %v, message %q, %d directory entries (expected failure with a message and nothing created)", o.String(), bad, rb.Code, rb.PanicVal, strings.TrimSpace(rb.Err), len(ents)))
						return
					}
				}
			}
			c.Outcome("target-ok")
		}
	}
}
