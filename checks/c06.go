//go:build verif

package checks

import (
	"encoding/json"
	"fmt"
	"strings"

	"github.com/jotaen/klog/klog"
	"github.com/jotaen/klog/klog/app"
	"github.com/jotaen/klog/klog/app/cli"
	tf "github.com/jotaen/klog/klog/app/cli/terminalformat"
	cliutil "github.com/jotaen/klog/klog/app/cli/util"
	"github.com/jotaen/klog/klog/parser"
	kjson "github.com/jotaen/klog/klog/parser/json"
	"github.com/jotaen/klog/klog/parser/txt"

	"klogverif/clidrv"
	"klogverif/docgen"
	"klogverif/fw"
	sm "klogverif/specmodel"
)

// C06 — no file content can crash klog: parsing and evaluation are total.

var c06Alphabet = []string{
	"2020-01-01", "2020-01-03", "9999-12-31", " ", "\n", "\r\n", "\r", "\t", "    ", "1h",
	"-", "?", "8:00", "24:00", "(", ")", "!", "#a", "x", "中",
	"\u00a0", "\ufffd", "\xff", "\x00", "\xe4\xb8", "99999999999999999999h", "9223372036854775807m", "153722867280912930h", ":", "<", ">",
}

// the 16-token core used one level deeper
var c06Core = []string{"2020-01-01", "\n", "    ", "\t", " ", "1h", "-", "?", "8:00", "(", "!", ")", "\xff", "\u00a0", "9223372036854775807m", "x"}

func c06Spaces(tier fw.Tier) []docgen.TokenSpace {
	if tier == fw.Thorough {
		return []docgen.TokenSpace{{Alphabet: c06Alphabet, MaxLen: 5}, {Alphabet: c06Core, MaxLen: 6, MinLen: 6}}
	}
	return []docgen.TokenSpace{{Alphabet: c06Alphabet, MaxLen: 4}, {Alphabet: c06Core, MaxLen: 5, MinLen: 5}}
}

type c06Case struct {
	Fam  string `json:"fam"`
	I    int    `json:"i"`
	Text fw.Txt `json:"text"`
}

const c06Chunk = 10000

func c06Sizes(tier fw.Tier) []int {
	var sizes []int
	for _, s := range c06Spaces(tier) {
		sizes = append(sizes, s.Count())
	}
	sizes = append(sizes, len(c06Alphabet)*3+len(c06HandCases)) // long-line family + hand-picked deep cases
	sizes = append(sizes, c06EvCount(tier))                     // valid documents shaped for the evaluation commands
	return sizes
}

// EV: valid documents whose VALUES steer the evaluation commands into their corners (the token families above
// rarely get past the parser): record dates relative to the clock (today, yesterday, long ago), should-totals that
// make the forecast end time representable / not representable, entry values much wider or narrower than the
// record total, negative and zero totals, open ranges that can / cannot be closed.
var c06EvEntries = []string{"1m", "-30m", "8:00 - 9:30", "100h", "<23:00 - 1:00>", "8:00 - ? #x", "-100h59m", "0m", "8:00 - 8:00"}
var c06EvShould = []string{"", " (8h!)", " (100h!)", " (-1h!)"}
var c06EvDates = []string{"2022-06-15", "2022-06-14", "2022/01/01"} // fixedNow is 2022-06-15 12:00

func c06EvSeqs(maxLen int) int {
	n, p := 0, 1
	for l := 0; l <= maxLen; l++ {
		n += p
		p *= len(c06EvEntries)
	}
	return n
}

func c06EvMaxLen(tier fw.Tier) int {
	if tier == fw.Thorough {
		return 3
	}
	return 2
}

func c06EvCount(tier fw.Tier) int {
	first := len(c06EvDates) * len(c06EvShould) * c06EvSeqs(c06EvMaxLen(tier))
	second := 1 + len(c06EvDates)*len(c06EvShould)*c06EvSeqs(1)
	return first * second
}

func c06EvRecord(idx, maxLen int) string {
	d := docgen.Radix(idx, len(c06EvDates), len(c06EvShould), c06EvSeqs(maxLen))
	out := c06EvDates[d[0]] + c06EvShould[d[1]] + "\n"
	k, l, p := d[2], 0, 1
	for k >= p { // sequences are numbered shortest first
		k -= p
		p *= len(c06EvEntries)
		l++
	}
	for j := 0; j < l; j++ {
		out += "    " + c06EvEntries[k%len(c06EvEntries)] + "\n"
		k /= len(c06EvEntries)
	}
	return out
}

func c06EvDoc(tier fw.Tier, i int) string {
	second := 1 + len(c06EvDates)*len(c06EvShould)*c06EvSeqs(1)
	text := c06EvRecord(i/second, c06EvMaxLen(tier))
	if s := i % second; s > 0 {
		text += "\n" + c06EvRecord(s-1, 1)
	}
	return text
}

// Inputs that need more tokens than the bound allows to reach deep code (sums of huge values, …).
var c06HandCases = []string{
	"2020-01-01\n    9223372036854775807m\n    1m\n",
	"2020-01-01\n    153722867280912930h\n    153722867280912930h\n",
	"2020-01-01 (9223372036854775807m!)\n    -9223372036854775807m\n    -1h\n",
	"2020-01-01\n    153722867280912930h59m\n",
	"2020-01-01\n    -153722867280912930h\n    -8m\n    -1m\n",
	"2020-01-01 (153722867280912930h!)\n\n2020-01-01 (153722867280912930h!)\n",
	"2020-01-01\n    8:00 - ?\n        \xff",
	"2020-01-01\n    1h\n        \u00a0",
	"2020-01-01\n    1h\n        \u00a0\n",
	"2020-01-01\n    1h foo\n        bar\n        \u3000\n        baz\n",
	"2020-01-01\nfoo\xff",
	"2020-01-01\n\xe4\xb8",
	"\xff",
	"2020-01-01\n    8:00 - 99999999999999999999:00",
	"2020-01-01\n    99999999999999999999999999999999999999999999m",
	"9999-12-31\n    0:00 - ?\n",
	"0000-01-01\n    <0:00 - ?\n",
	"2020-01-03\n    #a=\"\xff\n",
	// syntax errors on lines where control characters follow multi-byte text (the error report re-renders the line)
	"2020-01-01\n\tÄrger über Rückfrage fürs Büro\t2h\n",
	"2020-01-01\n\t中中中\tfoo\r\n\tx\n",
	"2020-01-01\n    日本語日本語日本語\t\x01\x7f 1h\n",
	"2020-01-01 ünï中文\t(8h!\n",
	// long tag values in multi-byte scripts (a table cell may be shortened: by characters or by bytes?)
	"2020-01-03\n    1h #проект=\"Разработка нового сайта для клиента\" #x='日本語の長い値がここにあります、まだ続きます'\n    2h #проект=\"Разработка нового сайта для клиента и ещё немного текста, чтобы было длиннее\"\n",
	// very short files that begin like a byte-order mark, and a complete one
	"\xef", "\xef\xbb", "\xef\xbb\xbf", "\xef\xbb\xbf2020-01-01\n", "\xfe\xff", "\xff\xfe2\x000\x00",
	// a faulty line far longer than a terminal line, with the fault far to the right
	"2020-01-01\n    1h " + strings.Repeat("long summary ", 20) + "\n    " + strings.Repeat("wörter ", 30) + "?? 8:00\n",
	// the ends of the representable calendar combined with day-shifted times (warnings look at adjacent days)
	"9999-12-31\n    23:00 - 1:00>\n",
	"9999-12-31\n    0:30> - ?\n    1h\n",
	"9999-12-31 (8h!)\n    <23:00 - 24:00\n\n9999-12-30\n    22:00 - ?\n",
	"0000-01-01\n    <23:00 - 1:00\n    <0:00 - ?\n",
	"0000-01-01\n    1h\n\n0000-01-02\n    <1:00 - 0:00>\n",
	"0000-12-31\n    23:59> - ?\n\n0001-01-01\n    <0:00 - 24:00\n",
}

func init() {
	fw.Register(&fw.Check{
		ID:    "C06",
		Title: "No file content can crash klog: parsing and evaluation are total",
		Rule: "ALL strings of at most k tokens over a 31-token alphabet of klog fragments, hostile bytes (invalid/truncated UTF-8, NUL, lone CR) and absurd numbers (k=4 quick, 5 thorough), " +
			"plus all strings of exactly k+1 tokens over a 16-token core, plus very long lines (10^5 repetitions of each token in three positions) and hand-picked deep cases; " +
			"each is parsed serially and in parallel (2 and 3 workers), every error accessor and renderer is called, and for accepted inputs every read-only command runs. " +
			"non-trivial = not blank-only; distinct by text hash. The property's sampling clauses (coverage-guided mutation, raw random bytes) are a different technique family and are not covered.",
		Assumptions: []string{
			"a panic inside a goroutine klog starts kills the worker process; it is attributed to the case marked before the call and confirmed by replay in fresh processes",
			"`report --fill` is only run when the record dates span <= 800 days (resource use is not a crash)",
			"hang detection: a worker exceeding the hard deadline is only reported if the marked case again fails to terminate within 60 s in two fresh processes",
		},
		Units: func(t fw.Tier) int { return len(planSpans(c06Sizes(t), c06Chunk)) },
		RunUnit: func(c *fw.Ctx, unit int) {
			spaces := c06Spaces(c.Tier)
			sp := planSpans(c06Sizes(c.Tier), c06Chunk)[unit]
			for i := sp.lo; i < sp.hi; i++ {
				if sp.fam < len(spaces) {
					c06Text(c, fmt.Sprintf("tok%d", sp.fam), i, spaces[sp.fam].At(i))
					continue
				}
				if sp.fam == len(spaces)+1 {
					c06Text(c, "ev", i, c06EvDoc(c.Tier, i))
					continue
				}
				if i >= len(c06Alphabet)*3 {
					c06Text(c, "hand", i, c06HandCases[i-len(c06Alphabet)*3])
					continue
				}
				tok := c06Alphabet[i/3]
				long := strings.Repeat(tok, 100000)
				switch i % 3 {
				case 0:
					c06Text(c, "long", i, long)
				case 1:
					c06Text(c, "long", i, "2020-01-01\n"+long+"\n")
				default:
					c06Text(c, "long", i, "2020-01-01\n    1h "+long)
				}
			}
		},
		Replay: func(c *fw.Ctx, raw json.RawMessage) {
			var cs c06Case
			if json.Unmarshal(raw, &cs) == nil {
				c06Text(c, cs.Fam, cs.I, string(cs.Text))
			}
		},
	})
}

func shorten(s string) string {
	if len(s) > 300 {
		return s[:120] + fmt.Sprintf("…(%d bytes)…", len(s)-240) + s[len(s)-120:]
	}
	return s
}

func c06Text(c *fw.Ctx, fam string, idx int, text string) {
	c.Eval(1)
	cs := c06Case{fam, idx, fw.Txt(text)}
	c.Sample(func() any { return c06Case{fam, idx, fw.Txt(shorten(text))} })
	if !sm.IsBlankLine(strings.NewReplacer("\n", "", "\r", "").Replace(text)) {
		c.NontrivialString(text)
	}
	viol := func(sig, detail string) {
		c.Violation(sig, cs, detail)
	}

	// --- serial parse
	rs, bs, errs, panicked, pv, st := klogParse(text)
	if panicked {
		viol("panic:parse:"+fw.PanicSite(st), fmt.Sprintf("serial parser panicked on %q: %v\n%s", shorten(text), pv, st))
		return
	}
	if !c06Shape(c, viol, "serial", rs, bs, errs) {
		return
	}
	// --- parallel parse (a panic in a worker goroutine kills this process: mark the case first)
	if len(text) < 5000 {
		mark, _ := json.Marshal(cs)
		c.Mark(mark)
		for _, n := range []int{2, 3} {
			var prs []klog.Record
			var pbs []txt.Block
			var perrs []txt.Error
			if p, v, st := tryRun(func() { prs, pbs, perrs = parser.NewParallelParser(n).Parse(text) }); p {
				viol("panic:parallel-parse:"+fw.PanicSite(st), fmt.Sprintf("parallel parser (n=%d) panicked: %v\n%s", n, v, st))
				return
			}
			if !c06Shape(c, viol, fmt.Sprintf("parallel%d", n), prs, pbs, perrs) {
				return
			}
		}
		c.Mark(nil)
	}
	// --- the complete path from the file on disk to the rendered answer (read, parse, evaluate or report the errors):
	// `klog total FILE` on the real context must complete for EVERY content
	if len(text) < 5000 {
		path := clidrv.WriteFile(fw.Scratch(), "c06raw.klg", text)
		envs := []map[string]string{nil}
		if fam == "hand" || idx%16 == 0 {
			envs = append(envs, map[string]string{"NO_COLOR": "1"})
		}
		for _, env := range envs {
			r := clidrv.Exec(clidrv.Home("home"), clidrv.Opts{Now: fixedNow, Env: env}, &cli.Total{InputFilesArgs: fileArgs(path)})
			c.Count("file_level_runs", 1)
			if r.Panicked {
				viol("panic:file-level:"+fw.PanicSite(r.Stack), fmt.Sprintf("`klog total FILE` panicked on a file with the content %q: %v\n%s", shorten(text), r.PanicVal, r.Stack))
				return
			}
			if len(errs) > 0 && (r.Code == 0 || r.Err == "") {
				viol("errors-not-reported", fmt.Sprintf("the parser reports %d errors for %q but `klog total FILE` exits %d with the message %q", len(errs), shorten(text), r.Code, r.Err))
				return
			}
		}
	}
	if len(errs) > 0 {
		c.Outcome("rejected")
		return
	}
	if len(rs) == 0 {
		c.Outcome("accepted-empty")
		return
	}
	c.Outcome("accepted")
	// --- every read-only command on accepted input
	c06Commands(c, viol, text)
}

// c06Shape checks the result shape and exercises every error accessor and renderer.
func c06Shape(c *fw.Ctx, viol func(string, string), leg string, rs []klog.Record, bs []txt.Block, errs []txt.Error) bool {
	if len(errs) == 0 {
		if len(rs) != len(bs) {
			viol("shape:"+leg, fmt.Sprintf("%s: %d records but %d blocks and no errors", leg, len(rs), len(bs)))
			return false
		}
		if p, v, st := tryRun(func() { _ = kjson.ToJson(rs, nil, true); _ = plainPrint(rs) }); p {
			viol("panic:render-records:"+fw.PanicSite(st), fmt.Sprintf("%s: rendering accepted records panicked: %v\n%s", leg, v, st))
			return false
		}
		return true
	}
	if rs != nil || bs != nil {
		viol("shape:"+leg, fmt.Sprintf("%s: errors returned together with records/blocks", leg))
		return false
	}
	for _, e := range errs {
		e := e
		if p, v, st := tryRun(func() {
			_ = e.LineNumber()
			_ = e.LineText()
			_ = e.Position()
			_ = e.Column()
			_ = e.Length()
			_ = e.Message()
			_ = e.Error()
			_ = e.Code() + e.Title() + e.Details() + e.Origin()
		}); p {
			viol("panic:error-accessor:"+fw.PanicSite(st), fmt.Sprintf("%s: error accessor panicked (%s): %v\n%s", leg, e.Code(), v, st))
			return false
		}
	}
	for _, theme := range []tf.ColourTheme{tf.COLOUR_THEME_NO_COLOUR, tf.COLOUR_THEME_DARK} {
		if p, v, st := tryRun(func() {
			_ = cliutil.PrettifyParsingError(app.NewParserErrors(errs), tf.NewStyler(theme)).Error()
			_ = kjson.ToJson(nil, errs, false)
			_ = kjson.ToJson(nil, errs, true)
		}); p {
			viol("panic:error-rendering:"+fw.PanicSite(st), fmt.Sprintf("%s: rendering the %d errors (%s) panicked: %v\n%s", leg, len(errs), errSummary(errs), v, st))
			return false
		}
	}
	return true
}

func fileArgs(path string) cliutil.InputFilesArgs {
	return cliutil.InputFilesArgs{File: []app.FileOrBookmarkName{app.FileOrBookmarkName(path)}}
}

func c06Commands(c *fw.Ctx, viol func(string, string), text string) {
	dir := fw.Scratch()
	path := clidrv.WriteFile(dir, "c06.klg", text)
	home := clidrv.Home("home")
	// the dates of the alphabet: 2020-01-01, 2020-01-03, 9999-12-31; `now` makes 2020-01-03 today
	now := fixedNow
	ref := sm.Parse(text)
	span := 0
	if len(ref.Records) > 0 {
		lo, hi := sm.MaxDay, sm.MinDay
		for _, r := range ref.Records {
			n := sm.DayNumber(r.Date.Date)
			if n < lo {
				lo = n
			}
			if n > hi {
				hi = n
			}
		}
		span = hi - lo
	} else {
		span = 1 << 30 // reference could not read it (don't-care zone): no --fill
	}
	type run struct {
		name string
		cmd  clidrv.Runner
	}
	in := fileArgs(path)
	nowArgs := cliutil.NowArgs{Now: true}
	runs := []run{
		{"print", &cli.Print{InputFilesArgs: in}},
		{"print --with-totals", &cli.Print{WithTotals: true, InputFilesArgs: in}},
		{"total --diff --now", &cli.Total{DiffArgs: cliutil.DiffArgs{Diff: true}, NowArgs: nowArgs, InputFilesArgs: in}},
		{"total", &cli.Total{InputFilesArgs: in}},
		{"tags -v -c", &cli.Tags{Values: true, Count: true, InputFilesArgs: in}},
		{"today --diff --now", &cli.Today{DiffArgs: cliutil.DiffArgs{Diff: true}, NowArgs: nowArgs, InputFilesArgs: in}},
		{"today", &cli.Today{InputFilesArgs: in}},
		{"json --pretty", &cli.Json{Pretty: true, InputFilesArgs: in}},
		{"json --now", &cli.Json{NowArgs: nowArgs, InputFilesArgs: in}},
		{"print --sort desc", &cli.Print{SortArgs: cliutil.SortArgs{Sort: "desc"}, InputFilesArgs: in}},
	}
	for _, agg := range []string{"day", "week", "month", "quarter", "year"} {
		runs = append(runs, run{"report --aggregate " + agg + " --diff --chart", &cli.Report{AggregateBy: agg, Chart: true, DiffArgs: cliutil.DiffArgs{Diff: true}, InputFilesArgs: in}})
		if span <= 800 {
			runs = append(runs, run{"report --fill --aggregate " + agg, &cli.Report{AggregateBy: agg, Fill: true, InputFilesArgs: in}})
		}
	}
	for _, r := range runs {
		for _, t := range []int{0, 1, 2} {
			o := clidrv.Opts{Now: now}
			if t == 2 {
				// a third clock, one minute before midnight (forecasts and closings at the upper end of the day)
				if !strings.Contains(r.name, "now") && !strings.Contains(r.name, "today") {
					continue
				}
				o.Now = dateAt(2022, 6, 15, 23, 59)
			}
			if t == 1 {
				// a second clock: the day of the file's first date at 00:00 (closing open ranges at the earliest instant)
				if len(ref.Records) == 0 {
					continue
				}
				d := ref.Records[0].Date
				if d.Y < 1 || d.Y > 9998 {
					continue // a wall clock at the ends of the representable calendar is outside every property's quantifier
				}
				o.Now = dateAt(d.Y, d.M, d.D, 0, 0)
				if !strings.Contains(r.name, "now") && !strings.Contains(r.name, "today") {
					continue
				}
			}
			res := clidrv.Exec(home, o, r.cmd)
			c.Count("command_runs", 1)
			if res.Panicked {
				viol("panic:command:"+fw.PanicSite(res.Stack), fmt.Sprintf("`klog %s` panicked on accepted input %q: %v\n%s", r.name, shorten(text), res.PanicVal, res.Stack))
				return
			}
		}
	}
	// the same through the complete CLI for one representative command per input (kong decoding path)
	res := clidrv.Run(home, clidrv.Opts{Now: now, NumCpus: 3}, "total", "--diff", "--now", path)
	if res.Panicked {
		viol("panic:cli:"+fw.PanicSite(res.Stack), fmt.Sprintf("`klog total --diff --now` (3 CPUs) panicked: %v\n%s", res.PanicVal, res.Stack))
	}
}
