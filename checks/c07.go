//go:build verif

package checks

import (
	"encoding/json"
	"fmt"
	"math"
	"strings"

	"github.com/jotaen/klog/klog"
	"github.com/jotaen/klog/klog/parser"
	"github.com/jotaen/klog/klog/parser/txt"

	"klogverif/clidrv"
	"klogverif/docgen"
	"klogverif/fw"
	sm "klogverif/specmodel"
)

// C07 — the parallel parser is indistinguishable from the serial parser.
// This file: inputs x worker counts under the native scheduler, and the CLI clause.
// The schedule-exhaustive leg (all interleavings of workers/closer/collector) lives in c07sched.go.

var c07A10 = []string{"2020-01-01", "\n", "\r\n", " ", "    ", "\t", "1h", "x", "é", "中"}
var c07A12 = append(append([]string{}, c07A10...), "bad", "\xff", "\ufffd")

type c07Case struct {
	Fam  string `json:"fam"`
	I    int    `json:"i"`
	Text fw.Txt `json:"text"`
	N    int    `json:"workers"`
}

// dumpParse renders everything observable about a parse result.
func dumpParse(rs []klog.Record, bs []txt.Block, errs []txt.Error) string {
	var b strings.Builder
	if rs == nil {
		b.WriteString("records=nil\n")
	} else {
		fmt.Fprintf(&b, "records=%d\n%s", len(rs), canonKlog(rs, nil))
	}
	if bs == nil {
		b.WriteString("blocks=nil\n")
	} else {
		fmt.Fprintf(&b, "blocks=%d\n", len(bs))
		for i, bl := range bs {
			sig, head, tail := bl.SignificantLines()
			fmt.Fprintf(&b, " block %d: sig=%d head=%d tail=%d\n", i, len(sig), head, tail)
			for k, l := range bl.Lines() {
				fmt.Fprintf(&b, "  [%d] %q %q\n", bl.OverallLineIndex(k), l.Text, l.LineEnding)
			}
		}
	}
	if errs == nil {
		b.WriteString("errors=nil\n")
	} else {
		fmt.Fprintf(&b, "errors=%d\n", len(errs))
		for _, e := range errs {
			lt := "<panic>"
			tryRun(func() { lt = e.LineText() })
			fmt.Fprintf(&b, " %s line=%d pos=%d len=%d text=%q msg=%q\n", e.Code(), e.LineNumber(), e.Position(), e.Length(), lt, e.Message())
		}
	}
	return b.String()
}

// workerCounts: every n from 1 to beyond the text length, or one n per distinct chunk size.
func workerCounts(textLen int, every bool) []int {
	var ns []int
	if every {
		for n := 1; n <= textLen+2; n++ {
			ns = append(ns, n)
		}
		return ns
	}
	seen := map[int]bool{}
	add := func(n int) {
		if n >= 1 && !seen[n] {
			seen[n] = true
			ns = append(ns, n)
		}
	}
	lastSize := -1
	for n := 1; n <= textLen+1; n++ {
		size := int(math.Ceil(float64(textLen) / float64(n)))
		if size != lastSize {
			add(n)
			lastSize = size
		}
	}
	add(textLen - 1)
	add(textLen)
	add(textLen + 1)
	add(textLen + 3)
	return ns
}

type c07Family struct {
	name  string
	count int
	at    func(i int) string
	every bool
}

func c07Families(tier fw.Tier) []c07Family {
	a12, a10 := 5, 6
	if tier == fw.Thorough {
		a12, a10 = 6, 7
	}
	t12 := docgen.TokenSpace{Alphabet: c07A12, MaxLen: a12}
	t10 := docgen.TokenSpace{Alphabet: c07A10, MaxLen: a10, MinLen: a10}
	fb := docgen.FB{Shapes: docgen.FBShapes()}
	fbStride := 7
	if tier == fw.Thorough {
		fbStride = 1
	}
	bases := docgen.FaultBases(true)
	// PRE: a byte-order mark / a zero-width no-break space in front of (and behind) every string of <= 4 tokens:
	// what one entry point of a parser strips, the other must strip, too
	tpre := docgen.TokenSpace{Alphabet: c07A12, MaxLen: 4}
	return []c07Family{
		{"A12", t12.Count(), t12.At, true},
		// TRAIL: 1-3 records, 1-3 blank lines between them, 0-30 blank lines after the last one, LF / CRLF, every worker count
		// (blank lines at the end of a chunk and chunks that are blank altogether)
		{"TRAIL", 3 * 2 * 3 * 31 * 2, func(i int) string {
			d := docgen.Radix(i, 3, 2, 3, 31, 2)
			eol := []string{"\n", "\r\n"}[d[4]]
			text := ""
			for r := 0; r <= d[0]; r++ {
				if r > 0 {
					text += strings.Repeat(eol, d[2]+1)
				}
				text += fmt.Sprintf("2020-01-%02d", r+1) + eol
				if d[1] == 1 {
					text += "    1h" + eol
				}
			}
			return text + strings.Repeat(eol, d[3])
		}, true},
		{"PRE", tpre.Count() * 2, func(i int) string {
			if i%2 == 0 {
				return "\ufeff" + tpre.At(i/2)
			}
			return tpre.At(i/2) + "\ufeff"
		}, true},
		{"A10", t10.Count(), t10.At, false},
		{"FB", fb.Count() / fbStride, func(i int) string { return fb.At(i * fbStride).Text() }, false},
		{"FD1", c07FD1Count(bases), func(i int) string { return c07FD1At(i) }, false},
	}
}

func c07FD1Count(_ []string) int {
	n := 0
	for _, b := range faultBases() {
		n += len(b.Edits)
	}
	return n
}

func c07FD1At(i int) string {
	for _, b := range faultBases() {
		if i < len(b.Edits) {
			return b.Apply(b.Edits[i])
		}
		i -= len(b.Edits)
	}
	return ""
}

func c07Sizes(tier fw.Tier) []int {
	var s []int
	for _, f := range c07Families(tier) {
		s = append(s, f.count)
	}
	s = append(s, c07CLICount)
	return s
}

const c07Chunk = 5000
const c07CLICount = 208

func init() {
	fw.Register(&fw.Check{
		ID:    "C07",
		Title: "The parallel parser is indistinguishable from the serial parser",
		Rule: "inputs: ALL strings of <=5 (quick) / 6 (thorough) tokens over A13 = {date, LF, CRLF, space, 4 spaces, tab, 1h, x, é, 中, bad, 0xFF, U+FFFD} x EVERY worker count 1..len+2 (a chunk boundary at every byte offset, " +
			"inside multi-byte characters, between CR and LF, on and between blank lines, inside leading/trailing blanks); all strings of exactly 6 / 7 tokens over the 10 valid-UTF-8 tokens x one worker count per distinct chunk size; " +
			"the formatting product FB and all single-edit documents FD1 x reduced worker counts; 208 documents x 12 commands x NumCpus {1,2,3,8} through the complete CLI. " +
			"schedules: see the schedule_* keys (exhaustive DFS over the cooperative scheduler on the instrumented build). A case = (text, worker count); non-trivial = more than one non-empty chunk; distinct by hash(text, n).",
		Assumptions: []string{
			"oracle = the serial parser on the same text: records (full canonical rendering), blocks (every line's text and ending, overall line indices, significant-line counts), errors (code, line number, position, length, line text, message)",
			"under the native scheduler each (text, n) runs once; interleavings are covered by the schedule-exhaustive leg and by the free-running -race pass",
		},
		Units: func(t fw.Tier) int { return len(planSpans(c07Sizes(t), c07Chunk)) + c07SchedUnits(t) },
		RunUnit: func(c *fw.Ctx, unit int) {
			// the schedule-exhaustive units come first: their findings are deterministic and replayable
			if unit < c07SchedUnits(c.Tier) {
				c07SchedUnit(c, unit)
				return
			}
			unit -= c07SchedUnits(c.Tier)
			spans := planSpans(c07Sizes(c.Tier), c07Chunk)
			fams := c07Families(c.Tier)
			sp := spans[unit]
			if sp.fam == len(fams) {
				for i := sp.lo; i < sp.hi; i++ {
					c07CLI(c, i)
				}
				return
			}
			f := fams[sp.fam]
			for i := sp.lo; i < sp.hi; i++ {
				text := f.at(i)
				c07Text(c, f.name, i, text, workerCounts(len(text), f.every))
			}
		},
		Replay: func(c *fw.Ctx, raw json.RawMessage) {
			var probe struct {
				Fam string `json:"fam"`
			}
			json.Unmarshal(raw, &probe)
			if probe.Fam == "sched" {
				c07SchedReplay(c, raw)
				return
			}
			if probe.Fam == "cli" {
				var cs c07Case
				json.Unmarshal(raw, &cs)
				c07CLI(c, cs.I)
				return
			}
			var cs c07Case
			if json.Unmarshal(raw, &cs) == nil {
				c07Text(c, cs.Fam, cs.I, string(cs.Text), []int{cs.N})
			}
		},
		Finalize: c07Finalize,
	})
}

func c07Text(c *fw.Ctx, fam string, idx int, text string, ns []int) {
	var want string
	rs, bs, errs, panicked, pv, st := klogParse(text)
	if panicked {
		// the serial parser's own crash is C06's business; here it must at least crash alike
		c.Outcome("serial-panics")
		_ = pv
		_ = st
		return
	}
	want = dumpParse(rs, bs, errs)
	for _, n := range ns {
		c.Eval(1)
		cs := c07Case{fam, idx, fw.Txt(text), n}
		mark, _ := json.Marshal(cs)
		c.Mark(mark)
		var prs []klog.Record
		var pbs []txt.Block
		var perrs []txt.Error
		if p, v, st := tryRun(func() { prs, pbs, perrs = parser.NewParallelParser(n).Parse(text) }); p {
			c.Violation("panic:parallel:"+fw.PanicSite(st), cs, fmt.Sprintf("parallel parser (n=%d) panicked: %v\n%s", n, v, st))
			continue
		}
		if n > 1 && len(text) > int(math.Ceil(float64(len(text))/float64(n))) {
			c.Nontrivial(fw.HashMix(fw.HashString(text), uint64(n)))
		}
		if got := dumpParse(prs, pbs, perrs); got != want {
			c.Violation("differs", cs, fmt.Sprintf("parallel (n=%d) differs from serial on %q.\nserial:\n%s\nparallel:\n%s", n, text, want, got))
			continue
		}
		c.Sample(func() any { return cs })
	}
	c.Mark(nil)
	if len(errs) > 0 {
		c.Outcome("invalid-text")
	} else {
		c.Outcome("valid-text")
	}
}

// c07CLI: every command behaves identically whatever the number of CPUs.
func c07CLI(c *fw.Ctx, i int) {
	var text string
	shapes := docgen.FBShapes()
	bases := faultBases()
	switch {
	case i < 104:
		fb := docgen.FB{Shapes: shapes}
		text = fb.At((i * 1543) % fb.Count()).Text()
	default:
		b := bases[(i-104)%len(bases)]
		text = b.Apply(b.Edits[(i*31)%len(b.Edits)])
	}
	dir := fw.Scratch()
	home := clidrv.Home("home")
	ref := sm.Parse(text)
	date := "2020-01-01"
	if len(ref.Records) > 0 {
		date = strings.ReplaceAll(ref.Records[0].Date.String(), "/", "-")
	}
	cmds := [][]string{
		{"print"}, {"print", "--with-totals"}, {"total", "--diff"}, {"report", "--aggregate", "week", "--diff"}, {"tags", "-v", "-c"}, {"today", "--diff"}, {"json", "--pretty"},
		{"json", "--sort", "desc"}, {"track", "--date", date, "45m parallel"}, {"start", "--date", date, "--time", "23:00", "-s", "x"}, {"stop", "--date", date, "--time", "23:30"}, {"create", "--date", "2031-01-01"},
	}
	for ci, cmd := range cmds {
		var first clidrv.Result
		var firstFile string
		for k, n := range []int{1, 2, 3, 8} {
			c.Eval(1)
			path := clidrv.WriteFile(dir, "c07.klg", text)
			cs := c07Case{"cli", i, fw.Txt(text), n}
			mark, _ := json.Marshal(cs)
			c.Mark(mark)
			r := clidrv.Run(home, clidrv.Opts{Now: fixedNow, NumCpus: n}, append(append([]string{}, cmd...), path)...)
			after := clidrv.ReadFile(path)
			if r.Panicked {
				c.Violation("panic:cli:"+fw.PanicSite(r.Stack), cs, fmt.Sprintf("`klog %s` with %d CPUs panicked: %v\n%s", strings.Join(cmd, " "), n, r.PanicVal, r.Stack))
				break
			}
			if k == 0 {
				first, firstFile = r, after
				continue
			}
			c.Nontrivial(fw.HashMix(fw.HashMix(fw.HashString(text), uint64(n)), uint64(ci+100)))
			if r.Code != first.Code || r.Stdout != first.Stdout || r.Err != first.Err || after != firstFile {
				c.Violation("cli-differs", cs, fmt.Sprintf("`klog %s` behaves differently with %d CPUs than with 1.\n1 CPU: exit %d\n%s%s\nfile: %q\n%d CPUs: exit %d\n%s%s\nfile: %q",
					strings.Join(cmd, " "), n, first.Code, first.Stdout, first.Err, firstFile, n, r.Code, r.Stdout, r.Err, after))
				break
			}
		}
	}
	c.Mark(nil)
	c.Outcome("cli-doc")
}
