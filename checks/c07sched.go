//go:build verif

package checks

import (
	"encoding/json"
	"fmt"
	"os"
	"sort"
	"strings"

	"github.com/jotaen/klog/klog"
	"github.com/jotaen/klog/klog/parser"
	"github.com/jotaen/klog/klog/parser/txt"
	"github.com/jotaen/klog/klog/verifrt/vrt"

	"klogverif/explore"
	"klogverif/fw"
)

// Schedule-exhaustive leg of C07: depth-first search over ALL interleavings of the parallel
// parser's goroutines (workers, closer, collector) on the instrumented build.

type c07Scenario struct {
	Text  string
	N     int
	Bound int // preemption bound; -1 = unbounded (with state-key pruning)
}

// Inputs whose batch results are pairwise distinct with non-empty head/middle/tail parts, so that
// a swapped, lost or duplicated result is observable.
func c07SchedTexts() []string {
	rec := func(d int, body string) string { return fmt.Sprintf("2020-01-%02d\n%s", d, body) }
	long := ""
	for d := 1; d <= 12; d++ {
		long += rec(d, fmt.Sprintf("    %dh\n\n", d))
	}
	bad := ""
	for d := 1; d <= 9; d++ {
		if d%2 == 0 {
			bad += fmt.Sprintf("2020-01-%02d\n     %dh\n\n", d, d) // wrong indentation: an error per even record
		} else {
			bad += rec(d, fmt.Sprintf("    %dh\n\n", d))
		}
	}
	return []string{
		long,
		bad,
		strings.ReplaceAll(long, "\n", "\r\n"),
		"2020-01-01\n    1h é中\n\n\n2020-01-02\nsummary\n\t2h\n\n2020-01-03\n  3h\n   \n2020-01-04\n    4h\n        more\n2020-01-05\n",
		"x\n\ny\n\n2020-01-01\n\nz\n\n2020-01-02\n    ?\n\n\n2020-01-03",
	}
}

func c07Scenarios(tier fw.Tier) []c07Scenario {
	var out []c07Scenario
	for i, t := range c07SchedTexts() {
		out = append(out, c07Scenario{t, 2, -1}, c07Scenario{t, 3, -1})
		if tier == fw.Thorough {
			out = append(out, c07Scenario{t, 4, -1}, c07Scenario{t, 5, 2}, c07Scenario{t, 6, 1})
		} else if i < 2 {
			out = append(out, c07Scenario{t, 4, 1}, c07Scenario{t, 5, 0})
		}
	}
	return out
}

func c07SchedUnits(t fw.Tier) int { return len(c07Scenarios(t)) }

type c07SchedCase struct {
	Fam     string `json:"fam"`
	Text    fw.Txt `json:"text"`
	N       int    `json:"workers"`
	Choices []int  `json:"choices"`
}

func instrumented() bool {
	// the overlay is active iff klog's parallel parser goes through vrt: probe with a tiny execution
	s, _ := vrt.Execute(func(string, int, bool) int { return 0 }, func() {
		parser.NewParallelParser(2).Parse("2020-01-01\n\n2020-01-02\n")
	})
	return len(s.Trace) > 0
}

// c07RunOne performs one controlled execution and checks it. It returns the violation (sig, detail) if any.
func c07RunOne(text string, n int, rec *explore.Recorder, want string, hook func(string, int) bool) (s *vrt.Sched, sig, detail string) {
	var rs []klog.Record
	var bs []txt.Block
	var errs []txt.Error
	s, pv := explore.RunSched(rec, hook, func() { rs, bs, errs = parser.NewParallelParser(n).Parse(text) })
	switch {
	case s.Deadlock() != nil:
		return s, "sched:deadlock", fmt.Sprintf("deadlock: blocked %v\ntrace: %v", s.Deadlock().Blocked, s.Trace)
	case pv != nil:
		return s, "sched:panic-main", fmt.Sprintf("the collecting goroutine panicked: %v\ntrace: %v", pv, s.Trace)
	case len(s.Panics) > 0:
		return s, "sched:panic-thread", fmt.Sprintf("a worker/closer goroutine panicked (the process would crash): %v\ntrace: %v", s.Panics, s.Trace)
	case s.Pruned:
		return s, "", ""
	}
	if got := dumpParse(rs, bs, errs); got != want {
		return s, "sched:differs", fmt.Sprintf("under this schedule the parallel parser (n=%d) differs from the serial parser.\nserial:\n%s\nparallel:\n%s\ntrace: %v", n, want, got, s.Trace)
	}
	return s, "", ""
}

func c07SchedUnit(c *fw.Ctx, unit int) {
	sc := c07Scenarios(c.Tier)[unit]
	if !instrumented() {
		c.Cap("the build is not instrumented (goinstr fallback): schedules are not explored")
		return
	}
	rs, bs, errs, _, _, _ := klogParse(sc.Text)
	want := dumpParse(rs, bs, errs)
	visited := map[string]bool{}
	arrivals := map[string]bool{}
	var prefixLen int
	var curRec *explore.Recorder
	hook := func(key string, point int) bool {
		if point < prefixLen {
			return false
		}
		if sc.Bound >= 0 {
			// bounded search: a state is only the same if the remaining preemption budget is the same
			key += fmt.Sprintf("|dev=%d", curRec.Deviations())
		}
		if visited[key] {
			return true
		}
		visited[key] = true
		return false
	}
	maxExec := 400000
	if c.Tier == fw.Thorough {
		maxExec = 4000000
	}
	st, err := explore.DFS(sc.Bound, maxExec, func(rec *explore.Recorder) bool {
		prefixLen = len(rec.Prefix)
		curRec = rec
		s, sig, detail := c07RunOne(sc.Text, sc.N, rec, want, hook)
		c.Eval(1)
		c.Count("schedule_executions", 1)
		c.Count("transitions", int64(len(s.Trace)))
		if s.Pruned {
			c.Count("schedule_pruned", 1)
			return !c.Expired()
		}
		if s.Leaked > 0 {
			c.Count("schedule_leaked_threads", int64(s.Leaked))
		}
		ord := fmt.Sprint(s.Arrivals)
		arrivals[ord] = true
		c.Nontrivial(fw.HashMix(fw.HashString(fmt.Sprint(rec.Choices())), uint64(unit)))
		if sig != "" {
			c.Violation(sig, c07SchedCase{"sched", fw.Txt(sc.Text), sc.N, rec.Choices()}, detail)
			return false
		}
		c.Sample(func() any {
			return map[string]any{"workers": sc.N, "choices": rec.Choices(), "trace": s.Trace, "arrival_order": s.Arrivals}
		})
		return !c.Expired()
	})
	if err != nil {
		harnessFatal("schedule exploration: %v", err)
	}
	c.Count("states", int64(len(visited)))
	c.Max("schedule_points", int64(st.MaxPoints))
	if st.Capped {
		c.Cap(fmt.Sprintf("schedule search for n=%d capped at %d executions", sc.N, maxExec))
	}
	var ords []string
	for o := range arrivals {
		ords = append(ords, o)
	}
	sort.Strings(ords)
	c.SetAdd(fmt.Sprintf("arrival_orders_n%d_bound%d", sc.N, sc.Bound), fmt.Sprintf("u%d:%d", unit, len(ords)))
	if sc.Bound < 0 && !st.Capped {
		fact := 1
		for i := 2; i <= sc.N; i++ {
			fact *= i
		}
		if len(ords) != fact {
			// vacuity guard: the unbounded search must deliver the results in every possible order
			c.Violation("finalize:arrival-orders", c07SchedCase{"sched", fw.Txt(sc.Text), sc.N, nil},
				fmt.Sprintf("the unbounded schedule search for %d workers observed %d distinct delivery orders, expected %d! = %d", sc.N, len(ords), sc.N, fact))
		}
	}
	c.Outcome(fmt.Sprintf("sched-n%d-bound%d", sc.N, sc.Bound))
}

func c07SchedReplay(c *fw.Ctx, raw json.RawMessage) {
	var cs c07SchedCase
	if json.Unmarshal(raw, &cs) != nil {
		return
	}
	text := string(cs.Text)
	rs, bs, errs, _, _, _ := klogParse(text)
	want := dumpParse(rs, bs, errs)
	var first string
	for i := 0; i < 2; i++ { // the same schedule twice: identical observations
		rec := &explore.Recorder{Prefix: cs.Choices}
		s, sig, detail := c07RunOne(text, cs.N, rec, want, nil)
		obs := fmt.Sprint(s.Trace, sig)
		if i == 0 {
			first = obs
			if sig != "" {
				c.Violation(sig, cs, detail)
			}
		} else if obs != first {
			c.Note("replay of the same schedule gave different observations")
		}
	}
}

func c07Finalize(r *fw.Result) {
	if r.Extra == nil {
		r.Extra = map[string]any{}
	}
	// model_checking keys: every execution runs on the implementation itself
	r.Extra["traces_validated_against_impl"] = r.Counters["schedule_executions"]
	// the separate free-running -race pass (run by ./check before this binary)
	rp := os.Getenv("KV_RACEPASS")
	r.Extra["race_pass"] = rp
	switch {
	case strings.HasPrefix(rp, "race "):
		r.Violations = append(r.Violations, fw.Violation{Property: "C07", Sig: "finalize:data-race", Case: json.RawMessage(`"free-running -race pass"`),
			Detail: "the race detector reported a data race in the uninstrumented parallel parser; report: " + strings.TrimPrefix(rp, "race ")})
		r.ViolationsN++
	case strings.HasPrefix(rp, "failed") && strings.Contains(rp, "exit=3"):
		r.Violations = append(r.Violations, fw.Violation{Property: "C07", Sig: "finalize:free-running-mismatch", Case: json.RawMessage(`"free-running pass"`), Detail: rp})
		r.ViolationsN++
	case !strings.HasPrefix(rp, "ok "):
		r.Caps = append(r.Caps, "the free-running -race pass did not run: "+rp)
	}
}
