//go:build verif

package checks

import (
	"encoding/json"

	"klogverif/fw"
)

func c07SchedUnits(fw.Tier) int                     { return 0 }
func c07SchedUnit(c *fw.Ctx, unit int)              {}
func c07SchedReplay(c *fw.Ctx, raw json.RawMessage) {}
func c07Finalize(r *fw.Result)                      {}
