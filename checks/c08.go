//go:build verif

package checks

import (
	"encoding/json"
	"fmt"
	"strings"

	"github.com/jotaen/klog/klog"
	"github.com/jotaen/klog/klog/app"
	"github.com/jotaen/klog/klog/parser"
	"github.com/jotaen/klog/klog/parser/reconciling"
	"github.com/jotaen/klog/klog/parser/txt"

	"klogverif/clidrv"
	"klogverif/docgen"
	"klogverif/fw"
	sm "klogverif/specmodel"
)

// C08 — reading a file loses nothing: blocks and lines reproduce the text exactly.

var c08Alphabet = []string{"2020-01-01", "\n", "\r\n", " ", "    ", "\t", "1h", "x", "é", "中", "\xff", "\r", "\ufffd"}

func c08Families(tier fw.Tier) []docFamily {
	return cachedFamilies("c08/"+string(tier), func() []docFamily {
		var fs []docFamily
		for _, f := range sharedFamilies(tier) {
			switch f.name {
			case "FB", "FA3", "FD1":
				fs = append(fs, f)
			}
		}
		k := 6
		if tier == fw.Thorough {
			k = 7
		}
		ts := docgen.TokenSpace{Alphabet: c08Alphabet, MaxLen: k}
		fs = append(fs, docFamily{"tokens", ts.Count(), func(i int) (string, []sm.Record, bool) { return ts.At(i), nil, false }})
		// summaries with arbitrary bytes in a fixed two-record skeleton, all layouts
		bytesMenu := []string{"\xff", "a\xffb", "\xe4\xb8", "x\r", "\ry", "a\rb", "\x00", "trailing  ", "tab\t", "\t", "é́中", " lead", "\xc0\xaf", "\xed\xa0\x80"}
		fs = append(fs, docFamily{"bytes", len(bytesMenu) * len(bytesMenu) * 16, func(i int) (string, []sm.Record, bool) {
			d := docgen.Radix(i, len(bytesMenu), len(bytesMenu), 4, 2, 2)
			eol := []string{"\n", "\r\n", "\n", "\r\n"}[d[2]]
			eol2 := []string{"\n", "\r\n", "\r\n", "\n"}[d[2]]
			t := "2020-01-01" + eol + "S" + bytesMenu[d[0]] + eol2 + "    1h " + bytesMenu[d[1]] + eol + "        " + bytesMenu[d[0]] + "z" + eol2
			if d[3] == 1 {
				t += eol + "\t" + eol2 + "2020-01-02" + eol + "\t8:00 - 9:00 " + bytesMenu[d[1]]
			}
			if d[4] == 1 {
				t += eol
			}
			return t, nil, false
		}})
		// TRAIL: 1-3 records, 1-3 blank lines between them, 0-30 blank lines after the last one, LF / CRLF; read with EVERY
		// worker count (blank lines at the end of a chunk, chunks that are blank altogether)
		fs = append(fs, docFamily{"TRAIL", 3 * 2 * 3 * 31 * 2, func(i int) (string, []sm.Record, bool) {
			d := docgen.Radix(i, 3, 2, 3, 31, 2)
			eol := []string{"\n", "\r\n"}[d[4]]
			text := ""
			for r := 0; r <= d[0]; r++ {
				if r > 0 {
					text += strings.Repeat(eol, d[2]+1)
				}
				text += fmt.Sprintf("2020-01-%02d", r+1) + eol
				if d[1] == 1 {
					text += "    1h" + eol
				}
			}
			return text + strings.Repeat(eol, d[3]), nil, false
		}})
		return fs
	})
}

func init() {
	fw.Register(&fw.Check{
		ID:    "C08",
		Title: "Reading a file loses nothing: blocks and lines reproduce the text exactly",
		Rule: "all klog-accepted texts among: the full formatting product FB, three-record documents FA3, single-edit documents FD1, ALL strings of <=6 (quick) / 7 (thorough) tokens over " +
			"{date, LF, CRLF, space, 4 spaces, tab, 1h, x, é, 中, 0xFF, lone CR, U+FFFD}, and a byte-menu family placing invalid UTF-8 / CR / NUL / trailing blanks in record and entry summaries under all line-ending mixes; " +
			"non-trivial = accepted with at least one record; distinct by text hash. Serial parser and parallel parser with 2 and 3 workers.",
		Assumptions: []string{
			"independent physical-line splitter specmodel.SplitLines (LF or CRLF ends a line; a lone CR is an ordinary byte)",
			"'valid text' means accepted by klog (the property speaks about what is returned for accepted input); rejected texts are counted and skipped",
		},
		Units: func(t fw.Tier) int { return len(planSpans(famSizes(c08Families(t)), 40000)) },
		RunUnit: func(c *fw.Ctx, unit int) {
			fs := c08Families(c.Tier)
			sp := planSpans(famSizes(fs), 40000)[unit]
			f := fs[sp.fam]
			for i := sp.lo; i < sp.hi; i++ {
				text, _, _ := f.at(i)
				c08Text(c, f.name, i, text)
			}
		},
		Replay: func(c *fw.Ctx, raw json.RawMessage) {
			var cs famCase
			if json.Unmarshal(raw, &cs) == nil {
				c08Text(c, cs.Fam, cs.I, string(cs.Text))
			}
		},
	})
}

func plainBlank(s string) bool {
	for i := 0; i < len(s); i++ {
		if s[i] != ' ' && s[i] != '\t' {
			return false
		}
	}
	return true
}

func c08Text(c *fw.Ctx, fam string, idx int, text string) {
	c.Eval(1)
	cs := func() famCase { return famCase{fam, idx, fw.Txt(text)} }
	mark, _ := json.Marshal(cs())
	c.Mark(mark)
	ns := []int{0, 2, 3}
	if fam == "TRAIL" {
		for n := 4; n <= len(text)+2; n++ {
			ns = append(ns, n)
		}
	}
	for _, n := range ns {
		var rs []klog.Record
		var bs []txt.Block
		var errs []txt.Error
		leg := "serial"
		p, v, st := tryRun(func() {
			if n == 0 {
				rs, bs, errs = parser.NewSerialParser().Parse(text)
			} else {
				leg = fmt.Sprintf("parallel%d", n)
				rs, bs, errs = parser.NewParallelParser(n).Parse(text)
			}
		})
		if p {
			c.Violation("panic:"+leg+":"+fw.PanicSite(st), cs(), fmt.Sprintf("%s parser panicked: %v\n%s", leg, v, st))
			return
		}
		if len(errs) > 0 {
			if n == 0 {
				c.Outcome("rejected")
				c.Mark(nil)
				return
			}
			// the serial parser accepted this text: klog on a machine with n CPUs must read it, too
			c.Violation("rejected:"+leg, cs(), fmt.Sprintf("the text is accepted by the serial parser but the parallel parser (%d workers) rejects it (%s): no blocks reproduce it", n, errSummary(errs)))
			return
		}
		if n == 0 {
			if len(rs) > 0 {
				c.NontrivialString(text)
				c.Outcome("accepted")
				c.Sample(func() any { return cs() })
			} else {
				c.Outcome("accepted-empty")
			}
		}
		if why := c08Blocks(text, rs, bs); why != "" {
			c.Violation("blocks:"+leg, cs(), leg+": "+why)
			return
		}
		if n == 0 {
			if why := c08Noop(text, rs, bs); why != "" {
				c.Violation("noop-reconcile", cs(), why)
				return
			}
			// the same through the real context on a real file (read - parse - reconcile nothing - write), for every
			// text with bytes outside ASCII and on a fixed stride of the others
			if len(rs) > 0 && (idx%8 == 0 || !isASCII(text) || fam == "TRAIL") {
				if why := c08NoopFile(text, rs); why != "" {
					c.Violation("noop-reconcile-file", cs(), why)
					return
				}
				c.Count("noop_file_roundtrips", 1)
			}
		}
	}
	c.Mark(nil)
}

func c08Blocks(text string, rs []klog.Record, bs []txt.Block) string {
	phys := sm.SplitLines(text)
	if len(rs) != len(bs) {
		return fmt.Sprintf("%d records but %d blocks", len(rs), len(bs))
	}
	allBlank := true
	for _, l := range phys {
		if !plainBlank(l.Text) {
			allBlank = false
		}
	}
	if allBlank {
		if len(bs) != 0 {
			return fmt.Sprintf("text consists of blank lines only but %d blocks were returned", len(bs))
		}
		return ""
	}
	if len(bs) == 0 {
		return "text contains non-blank lines but no blocks were returned"
	}
	var sb strings.Builder
	k := 0 // index into phys
	for bi, b := range bs {
		lines := b.Lines()
		runs, inRun := 0, false
		for li, l := range lines {
			if got := b.OverallLineIndex(li); got != k {
				return fmt.Sprintf("block %d line %d has overall index %d, expected %d (consecutive from the first line of the file)", bi, li, got, k)
			}
			if k >= len(phys) {
				return fmt.Sprintf("blocks contain more lines than the text (%d)", len(phys))
			}
			if l.Text != phys[k].Text || l.LineEnding != phys[k].EOL {
				return fmt.Sprintf("line %d: block has %q+%q, the text has %q+%q", k+1, l.Text, l.LineEnding, phys[k].Text, phys[k].EOL)
			}
			sb.WriteString(l.Text)
			sb.WriteString(l.LineEnding)
			blank := plainBlank(l.Text)
			if !blank && !inRun {
				runs++
			}
			inRun = !blank
			k++
		}
		if runs != 1 {
			return fmt.Sprintf("block %d contains %d runs of non-blank lines (must be exactly one record's lines plus adjacent blank lines)", bi, runs)
		}
		// the block's own text parses to exactly this record
		var bt strings.Builder
		for _, l := range lines {
			bt.WriteString(l.Text)
			bt.WriteString(l.LineEnding)
		}
		one, _, errs := parser.NewSerialParser().Parse(bt.String())
		if len(errs) > 0 || len(one) != 1 || canonKlog(one, nil) != canonKlog(rs[bi:bi+1], nil) {
			return fmt.Sprintf("block %d does not hold the lines of record %d: its text %q parses to\n%sbut the record is\n%s", bi, bi, bt.String(), canonKlog(one, nil), canonKlog(rs[bi:bi+1], nil))
		}
	}
	if k != len(phys) {
		return fmt.Sprintf("blocks cover %d of the text's %d lines", k, len(phys))
	}
	if sb.String() != text {
		return fmt.Sprintf("concatenated block lines %q differ from the input %q", sb.String(), text)
	}
	return ""
}

// c08Noop: a mutating operation that changes nothing writes back the identical text.
func c08Noop(text string, rs []klog.Record, bs []txt.Block) string {
	seen := map[string]bool{}
	for _, r := range rs {
		d := r.Date()
		if seen[d.ToString()] {
			continue
		}
		seen[d.ToString()] = true
		var res *reconciling.Result
		var err app.Error
		if p, v, st := tryRun(func() {
			res, err = app.ApplyReconciler(rs, bs, []reconciling.Creator{reconciling.NewReconcilerAtRecord(d)})
		}); p {
			return fmt.Sprintf("no-op reconcile at %s panicked: %v\n%s", d.ToString(), v, st)
		}
		if err != nil {
			return fmt.Sprintf("no-op reconcile at %s failed: %s %s", d.ToString(), err.Error(), err.Details())
		}
		if res.AllSerialised != text {
			return fmt.Sprintf("no-op reconcile at %s changed the text: %q -> %q", d.ToString(), text, res.AllSerialised)
		}
	}
	return ""
}

func isASCII(s string) bool {
	for i := 0; i < len(s); i++ {
		if s[i] >= 0x80 {
			return false
		}
	}
	return true
}

// c08NoopFile: klog's own context reads the file from disk, parses it, applies a reconciler that changes nothing
// and writes the result back; the bytes on disk must be the same afterwards.
func c08NoopFile(text string, rs []klog.Record) string {
	dir := fw.Scratch()
	path := clidrv.WriteFile(dir, "c08.klg", text)
	for _, cpus := range []int{1, 3} {
		ctx := clidrv.RealContext(clidrv.Home("home"), clidrv.Opts{Now: fixedNow, NumCpus: cpus})
		var err app.Error
		if p, v, st := tryRun(func() {
			_, err = ctx.ReconcileFile(app.FileOrBookmarkName(path), []reconciling.Creator{reconciling.NewReconcilerAtRecord(rs[0].Date())})
		}); p {
			return fmt.Sprintf("no-op ReconcileFile (%d CPUs) panicked: %v\n%s", cpus, v, st)
		}
		if err != nil {
			return fmt.Sprintf("no-op ReconcileFile (%d CPUs) failed on a text the parser accepts: %s %s", cpus, err.Error(), err.Details())
		}
		if after := clidrv.ReadFile(path); after != text {
			return fmt.Sprintf("a reconcile that changes nothing (%d CPUs) rewrote the file: %q -> %q", cpus, text, after)
		}
	}
	return ""
}
