//go:build verif

package checks

import (
	"encoding/json"
	"fmt"
	"strings"

	"github.com/jotaen/klog/klog"
	"github.com/jotaen/klog/klog/app"
	tf "github.com/jotaen/klog/klog/app/cli/terminalformat"
	"github.com/jotaen/klog/klog/parser"

	"klogverif/clidrv"
	"klogverif/docgen"
	"klogverif/fw"
	sm "klogverif/specmodel"
)

// C09 — printing a file yields an equivalent canonical file (round trip, fixed point).

func plainPrint(rs []klog.Record) string {
	return parser.SerialiseRecords(app.NewSerialiser(tf.NewStyler(tf.COLOUR_THEME_NO_COLOUR), false), rs...).ToString()
}

// refPrintLines renders the canonical form of a reference denotation, independently of klog:
// four-space indentation, one blank line between records, canonical literals. Where the
// statement leaves a choice (irregular dash spacing, a should-total of zero) the alternatives
// are returned side by side.
func refPrintLines(rs []sm.Record) [][]string {
	var out [][]string
	for i, r := range rs {
		if i > 0 {
			out = append(out, []string{""})
		}
		date := r.Date.String()
		switch {
		case r.HasShould && r.Should != 0:
			out = append(out, []string{date + " (" + sm.CanonicalDuration(r.Should) + "!)"})
		case r.HasShould:
			out = append(out, []string{date, date + " (0m!)"})
		default:
			out = append(out, []string{date})
		}
		for _, s := range r.Summary {
			out = append(out, []string{s})
		}
		for _, e := range r.Entries {
			var vals []string
			dashes := []string{" - "}
			if e.Dash == sm.DashNone {
				dashes = []string{"-"}
			} else if e.Dash == sm.DashIrregular {
				dashes = []string{" - ", "-"}
			}
			switch e.Kind {
			case sm.KDuration:
				vals = []string{refDurString(e.Dur)}
			case sm.KRange:
				for _, d := range dashes {
					vals = append(vals, e.Start.String()+d+e.End.String())
				}
			case sm.KOpenRange:
				for _, d := range dashes {
					vals = append(vals, e.Start.String()+d+strings.Repeat("?", e.Placeholder))
				}
			}
			var alts []string
			for _, v := range vals {
				l := "    " + v
				if len(e.Summary) > 0 && e.Summary[0] != "" {
					l += " " + e.Summary[0]
				}
				alts = append(alts, l)
			}
			out = append(out, alts)
			for k := 1; k < len(e.Summary); k++ {
				out = append(out, []string{"        " + e.Summary[k]})
			}
		}
	}
	return out
}

// matchPrinted compares a printed text with the expected canonical lines.
func matchPrinted(printed string, want [][]string) string {
	if printed == "" && len(want) == 0 {
		return ""
	}
	if !strings.HasSuffix(printed, "\n") {
		return "output does not end with a line feed"
	}
	got := strings.Split(strings.TrimSuffix(printed, "\n"), "\n")
	if len(got) != len(want) {
		return fmt.Sprintf("%d lines printed, %d expected", len(got), len(want))
	}
	for i := range got {
		ok := false
		for _, a := range want[i] {
			if got[i] == a {
				ok = true
			}
		}
		if !ok {
			return fmt.Sprintf("line %d: printed %q, canonical form is %q", i+1, got[i], want[i])
		}
	}
	return ""
}

func c09Families(tier fw.Tier) []docFamily {
	return cachedFamilies("c09/"+string(tier), func() []docFamily {
		var fs []docFamily
		for _, f := range sharedFamilies(tier) {
			switch f.name {
			case "FA1", "FA2", "FA3", "FB", "FC-time", "FC-duration", "FD1":
				fs = append(fs, f)
			}
		}
		// notation sweep: every entry value of both menus x summary shapes, in a two-record skeleton
		vals := append(append([]docgen.GEntry{}, docgen.EntryMenu...), docgen.EntryMenuExtra...)
		sums := [][]string{
			nil, {"x"}, {" leading space"}, {"trailing space  "}, {"tab\tinside\t"}, {"8:00 - 9:00 looks like an entry"}, {"-1h"},
			{"", "        extra indentation"}, {"a", "\tb", "  c  "}, {"#tag=\"q\" #t2='x y' #t3=z", "    2020-01-01 (8h!)"}, {"(", ")"}, {"?"}, {"- ?"},
			{"replacement \ufffd character", "and \ufffd again"}, {"\ufffd"}, {"x \ufffd"}, {"  "}, {" ", "cont"}, {"\t "}, {"", "  x"}, {"100% %s %d"},
			{"cr\rinside"}, {"\rstarts with cr", "\r"}, {"ends in cr\r"},
		}
		shoulds := []string{"", " (8h!)", " (+8h!)", " (0m!)", " (-0h!)", " (90m!)", " (-1h5m!)", "  (480m!)"}
		fs = append(fs, docFamily{"notation", len(vals) * len(sums) * len(shoulds) * 4, func(i int) (string, []sm.Record, bool) {
			d := docgen.Radix(i, len(vals), len(sums), len(shoulds), 4)
			e := vals[d[0]]
			e.Summary = sums[d[1]]
			doc := docgen.Doc{Layout: docgen.Layout{EOL: d[3] % 2, Between: []string{""}, FinalNL: d[3] < 2}}
			doc.Records = []docgen.GRecord{
				{Date: "2021/06/30", Unit: sm.Units[d[3]], Entries: []docgen.GEntry{e, docgen.EntryMenu[1]}},
				{Date: "2021-07-01", Unit: "\t", Summary: []string{"Second"}, Entries: []docgen.GEntry{docgen.EntryMenu[0]}},
			}
			lines := doc.Lines()
			lines[0] += shoulds[d[2]]
			return docgen.Join(lines, doc.Layout.EOL, doc.Layout.FinalNL), nil, false
		}})
		// dates: the edges of the four-digit year (leading zeros must survive), both separators, month/day edges
		var dates []string
		for _, y := range []int{0, 1, 9, 10, 42, 99, 100, 987, 999, 1000, 2020, 9999} {
			for _, md := range [][2]int{{1, 1}, {2, 28}, {2, 29}, {10, 10}, {12, 31}} {
				if md[1] == 29 && !sm.IsLeap(y) {
					continue
				}
				dates = append(dates, fmt.Sprintf("%04d-%02d-%02d", y, md[0], md[1]), fmt.Sprintf("%04d/%02d/%02d", y, md[0], md[1]))
			}
		}
		fs = append(fs, docFamily{"dates", len(dates) * 2, func(i int) (string, []sm.Record, bool) {
			d := dates[i/2]
			if i%2 == 0 {
				return d + "\n", nil, false
			}
			return d + " (8h!)\nsummary\n    1h\n\n" + dates[(i/2+7)%len(dates)] + "\n    8:00 - 9:00\n", nil, false
		}})
		// lastline: the final line of the text is a summary line that ends in blanks (record summary, entry summary,
		// continuation line) or a bare value followed by blanks; with and without a final newline; LF and CRLF
		lastLines := []string{"2021-07-01\nsummary ends in blanks  \t", "2021-07-01\n    1h ends in blanks  ", "2021-07-01\n    1h\n        continuation \t ", "2021-07-01\n    8:00 - 9:00  ", "2021-07-01\n    1h x\n        \t", "2021-07-01\n    30m  x  "}
		fs = append(fs, docFamily{"lastline", len(lastLines) * 4, func(i int) (string, []sm.Record, bool) {
			t := "2021/06/30 (8h!)\n    2h first record\n\n" + lastLines[i/4]
			if i%2 == 1 {
				t += "\n"
			}
			if i%4 >= 2 {
				t = strings.ReplaceAll(t, "\n", "\r\n")
			}
			return t, nil, false
		}})
		// long documents (9 records) for the CLI leg with several CPUs (parallel parser behind `klog print`)
		shapes := docgen.FBShapes()
		fs = append(fs, docFamily{"long", len(shapes) * 3, func(i int) (string, []sm.Record, bool) {
			d := docgen.Doc{Layout: docgen.Layout{EOL: i % 2, Between: []string{""}, FinalNL: true}}
			for k := 0; k < 9; k++ {
				src := shapes[(i/3+k*5)%len(shapes)]
				r := src.Records[k%len(src.Records)]
				r.Date = fmt.Sprintf("2022-%02d-%02d", 1+(k*7+i)%12, 1+(k*11)%28)
				r.Unit = sm.Units[(i+k)%4]
				d.Records = append(d.Records, r)
			}
			return d.Text(), nil, false
		}})
		return fs
	})
}

func init() {
	fw.Register(&fw.Check{
		ID:    "C09",
		Title: "Printing a file yields an equivalent canonical file (round trip, fixed point)",
		Rule: "all reference-valid documents of the C01 grammar/formatting/value families plus a notation sweep (28 entry literals x 24 summary shapes x 8 should-total spellings x layouts), a date sweep (years 0000..9999 at the edges of each digit count x both separators x month/day edges) and 78 nine-record documents printed through the CLI with 1, 2 and 3 CPUs; " +
			"a case = one valid document; for each: print, compare with the independently rendered canonical form, re-parse with both parsers, print again",
		Assumptions: []string{
			"specmodel.Parse and the independent canonical renderer refPrintLines",
			"should-total is compared by value ((+8h!) -> (8h!), (0m!) may be omitted); irregular dash spacing (8:00- 9:00) may become either canonical form",
			"the bulk of the sweep calls the serialiser klog print uses (parser.SerialiseRecords with the no-colour serialiser); every 256th (quick) / 64th (thorough) case and the whole notation sweep also run `klog print --no-style FILE` through klog.Run and must give the same bytes",
		},
		Units: func(t fw.Tier) int { return len(planSpans(famSizes(c09Families(t)), c01Chunk)) },
		RunUnit: func(c *fw.Ctx, unit int) {
			fs := c09Families(c.Tier)
			sp := planSpans(famSizes(fs), c01Chunk)[unit]
			f := fs[sp.fam]
			for i := sp.lo; i < sp.hi; i++ {
				text, _, _ := f.at(i)
				if text == "" {
					continue
				}
				c09Text(c, f.name, i, text, f.name == "notation" || f.name == "long" || f.name == "dates" || f.name == "lastline" || (c.Tier == fw.Thorough && i%64 == 0) || i%256 == 0)
			}
		},
		Replay: func(c *fw.Ctx, raw json.RawMessage) {
			var cs famCase
			if json.Unmarshal(raw, &cs) == nil {
				c09Text(c, cs.Fam, cs.I, string(cs.Text), true)
			}
		},
	})
}

// canonRefValue is canonRef with the should-total compared by value only.
func c09Text(c *fw.Ctx, fam string, idx int, text string, viaCLI bool) {
	ref := sm.Parse(text)
	if ref.Verdict != sm.Valid {
		c.Outcome("skipped-not-valid")
		return
	}
	c.Eval(1)
	cs := func() famCase { return famCase{fam, idx, fw.Txt(text)} }
	c.Sample(func() any { return cs() })
	rs, _, errs, panicked, pv, st := klogParse(text)
	if panicked || len(errs) > 0 {
		if !panicked && !ref.ZsBlank {
			// (whether the parser is RIGHT is C01's business; but a valid file that cannot be printed at all has no
			// equivalent canonical form)
			c.Violation("valid-file-not-printed", cs(), fmt.Sprintf("the file is valid but klog cannot read it (%s), so `klog print` yields no equivalent file", errSummary(errs)))
			return
		}
		c.Outcome("skipped-klog-rejects")
		_ = pv
		_ = st
		return
	}
	c.NontrivialString(text)
	var p1 string
	if p, v, st := tryRun(func() { p1 = plainPrint(rs) }); p {
		c.Violation("panic:print:"+fw.PanicSite(st), cs(), fmt.Sprintf("printing panicked: %v\n%s", v, st))
		return
	}
	// 1. the printed text is the canonical form of what the input denotes
	if why := matchPrinted(p1, refPrintLines(ref.Records)); why != "" {
		c.Violation("not-canonical", cs(), fmt.Sprintf("%s\nprinted:\n%s", why, p1))
		return
	}
	// 2. it is a valid file with the same records (values and notation) for the reference parser …
	ref2 := sm.Parse(p1)
	if c09SummaryEndsInCR(ref.Records) && (ref2.Verdict != sm.Valid || canonRef(maskIrregular(ref.Records)) != canonRef(maskIrregular2(ref2.Records, ref.Records))) {
		// one signature of its own: a summary line that ends in a carriage return cannot be written back with a
		// line ending after it (CR + LF reads as one CR LF newline)
		c.Violation("summary-line-ends-in-CR", cs(), fmt.Sprintf("a summary line of the input ends in a carriage return (an ordinary character when no LF follows); printed, it is followed by a newline and reads back without it (or as another line structure):\n%q", p1))
		return
	}
	if ref2.Verdict != sm.Valid {
		c.Violation("print-invalid", cs(), fmt.Sprintf("the printed text is not a valid file (%v: line %d %s):\n%s", ref2.Verdict, ref2.Line, ref2.Rule, p1))
		return
	}
	a, b := canonRef(maskIrregular(ref.Records)), canonRef(maskIrregular2(ref2.Records, ref.Records))
	if a != b {
		c.Violation("round-trip", cs(), fmt.Sprintf("printed text denotes different records.\ninput:\n%sprinted:\n%s", a, b))
		return
	}
	// … and for klog itself, and printing again changes nothing
	rs2, _, errs2, panicked2, _, _ := klogParse(p1)
	if panicked2 || len(errs2) > 0 {
		c.Violation("print-rejected", cs(), fmt.Sprintf("klog rejects its own printed output: %s\n%s", errSummary(errs2), p1))
		return
	}
	if p2 := plainPrint(rs2); p2 != p1 {
		c.Violation("not-fixed-point", cs(), fmt.Sprintf("printing the printed text changes it.\nfirst:\n%s\nsecond:\n%s", p1, p2))
		return
	}
	c.Outcome("ok")
	if viaCLI {
		dir := fw.Scratch()
		path := clidrv.WriteFile(dir, "c09.klg", text)
		want := "\n" + p1 + "\n"
		if len(rs) == 0 {
			want = ""
		}
		for _, ncpu := range []int{1, 2, 3} {
			r := clidrv.Run(clidrv.Home("home"), clidrv.Opts{Now: fixedNow, NumCpus: ncpu}, "print", "--no-style", "--no-warn", path)
			if r.Panicked {
				c.Violation("panic:cli-print:"+fw.PanicSite(r.Stack), cs(), fmt.Sprintf("klog print panicked: %v\n%s", r.PanicVal, r.Stack))
				break
			} else if r.Code != 0 || r.Stdout != want {
				c.Violation("cli-print-differs", cs(), fmt.Sprintf("`klog print --no-style` with %d CPU(s) (exit %d, err %q) printed\n%q\nbut the canonical form is\n%q", ncpu, r.Code, r.Err, r.Stdout, want))
				break
			}
			if fam != "long" {
				break // several CPUs only for the long documents
			}
		}
		// the same text piped through standard input prints the same
		if len(rs) > 0 && (idx%4 == 0 || fam == "lastline" || fam == "dates") {
			in := text
			r := clidrv.Run(clidrv.Home("home-nobookmarks"), clidrv.Opts{Now: fixedNow, OSStdin: &in}, "print", "--no-style", "--no-warn")
			if r.Panicked || r.Code != 0 || r.Stdout != want {
				c.Violation("cli-print-stdin-differs", cs(), fmt.Sprintf("`klog print --no-style` with the text on standard input (exit %d, panic %v, err %q) printed\n%q\nbut the canonical form is\n%q", r.Code, r.PanicVal, r.Err, r.Stdout, want))
			}
		}
		c.Outcome("ok-via-cli")
	}
}

// maskIrregular prepares records for value+notation comparison under C09's rules.
func maskIrregular(rs []sm.Record) []sm.Record { return maskIrregular2(rs, rs) }

func maskIrregular2(rs, orig []sm.Record) []sm.Record {
	out := make([]sm.Record, len(rs))
	for i, r := range rs {
		r2 := r
		r2.HasShould = true // by value only
		if !r.HasShould {
			r2.Should = 0
		}
		r2.Entries = append([]sm.Entry{}, r.Entries...)
		for j := range r2.Entries {
			if i < len(orig) && j < len(orig[i].Entries) && orig[i].Entries[j].Dash == sm.DashIrregular {
				r2.Entries[j].Dash = sm.DashIrregular
			}
		}
		out[i] = r2
	}
	return out
}

func c09SummaryEndsInCR(rs []sm.Record) bool {
	ends := func(lines []string) bool {
		for _, l := range lines {
			if strings.HasSuffix(l, "\r") {
				return true
			}
		}
		return false
	}
	for _, r := range rs {
		if ends(r.Summary) {
			return true
		}
		for _, e := range r.Entries {
			if ends(e.Summary) {
				return true
			}
		}
	}
	return false
}
