//go:build verif

package checks

import (
	"encoding/json"
	"fmt"
	"strings"
	"unicode/utf8"

	"github.com/jotaen/klog/klog"
	"github.com/jotaen/klog/klog/app"
	tf "github.com/jotaen/klog/klog/app/cli/terminalformat"
	cliutil "github.com/jotaen/klog/klog/app/cli/util"
	"github.com/jotaen/klog/klog/parser"
	kjson "github.com/jotaen/klog/klog/parser/json"
	"github.com/jotaen/klog/klog/parser/txt"

	"klogverif/clidrv"
	"klogverif/docgen"
	"klogverif/fw"
	sm "klogverif/specmodel"
)

// C10 — syntax errors are reported at the right place and can always be displayed.

func c10Families(tier fw.Tier) []docFamily {
	return cachedFamilies("c10/"+string(tier), func() []docFamily {
		var fs []docFamily
		for _, f := range sharedFamilies(tier) {
			switch f.name {
			case "FD1", "FD2", "FA1", "FC-time", "FC-duration":
				fs = append(fs, f)
			}
		}
		// ALL rejected token strings (positions only; the first-line clause applies where the reference has a verdict)
		k := 5
		if tier == fw.Thorough {
			k = 6
		}
		ts := docgen.TokenSpace{Alphabet: c10Alphabet, MaxLen: k}
		fs = append(fs, docFamily{"tokens", ts.Count(), func(i int) (string, []sm.Record, bool) { return ts.At(i), nil, false }})
		// MULTI: one record followed by every sequence of 1..4 lines from a menu of valid and faulty line kinds (several
		// faults of different kinds in one record, in every order), then a second valid record
		ms := docgen.TokenSpace{Alphabet: make([]string, len(c10MultiLines)), MaxLen: 4, MinLen: 1}
		fs = append(fs, docFamily{"MULTI", ms.Count(), func(i int) (string, []sm.Record, bool) {
			t := "2020-01-01\nsummary\n"
			for _, d := range ms.Digits(i) {
				t += c10MultiLines[d] + "\n"
			}
			return t + "\n2020-01-02\n    1h\n", nil, false
		}})
		return fs
	})
}

// line kinds for the MULTI family: valid entry, open range, (second) open range, malformed entry, wrong indentation,
// unindented text after entries, entry with a non-blank-looking blank continuation line
var c10MultiLines = []string{"    1h ok", "    8:00 - ? open", "    9:00 - ?", "    foo", "     1h", "late summary", "    2h x\n        \u00a0"}

var c10Alphabet = []string{"2020-01-01", "\n", "\r\n", " ", "    ", "\t", "1h", "x", "é中", "8:00 - ", "?", "(8h!)", "\u00a0"}

func init() {
	fw.Register(&fw.Check{
		ID:    "C10",
		Title: "Syntax errors are reported at the right place and can always be displayed",
		Rule: "all klog-rejected texts among: every single rule-violating edit (" + fmt.Sprint(len(docgen.Ops)) + " operators x every line of ~100 valid base documents: first/middle/last line, inside multi-line summaries, after blank runs, any record), " +
			"pairs of edits (6 bases quick / 60 thorough), the invalid members of FA1 (second open range) and of the time/duration literal sweeps; and ALL rejected strings of <=5 (quick) / 6 (thorough) tokens over {date, LF, CRLF, space, 4 spaces, tab, 1h, x, é中, '8:00 - ', ?, (8h!), U+00A0}; each parsed serially and with 2 and 3 workers. " +
			"non-trivial = rejected by klog; distinct by text hash. The expected first faulty line comes from the reference parser (first physical line at which no continuation of the grammar exists).",
		Assumptions: []string{
			"independent physical-line splitter; specmodel.Parse for the first offending line (only for texts without don't-care zones and without Zs-only lines, see known finding KF-C01-zs-blank-line)",
			"terminal report = util.PrettifyParsingError as klog.Run calls it (no-colour styler), parsed back line by line; JSON report = parser/json.ToJson; every 40th (quick) / 8th (thorough) case additionally through `klog print` and `klog json` via the complete CLI with NumCpus 1 and 3",
		},
		Units: func(t fw.Tier) int { return len(planSpans(famSizes(c10Families(t)), 8000)) },
		RunUnit: func(c *fw.Ctx, unit int) {
			fs := c10Families(c.Tier)
			sp := planSpans(famSizes(fs), 8000)[unit]
			f := fs[sp.fam]
			for i := sp.lo; i < sp.hi; i++ {
				text, _, _ := f.at(i)
				if text == "" {
					continue
				}
				c10Text(c, f.name, i, text, f.name != "tokens" && ((c.Tier == fw.Thorough && i%8 == 0) || i%40 == 0))
			}
		},
		Replay: func(c *fw.Ctx, raw json.RawMessage) {
			var cs famCase
			if json.Unmarshal(raw, &cs) == nil {
				c10Text(c, cs.Fam, cs.I, string(cs.Text), true)
			}
		},
	})
}

type errFacts struct {
	line, pos, length int
	text              string
	title, details    string
}

func c10Text(c *fw.Ctx, fam string, idx int, text string, viaCLI bool) {
	cs := func() famCase { return famCase{fam, idx, fw.Txt(text)} }
	phys := sm.SplitLines(text)
	ref := sm.Parse(text)
	var serialFacts []errFacts
	for _, n := range []int{0, 2, 3} {
		leg := "serial"
		var rs []klog.Record
		var errs []txt.Error
		mark, _ := json.Marshal(cs())
		c.Mark(mark)
		p, v, st := tryRun(func() {
			if n == 0 {
				rs, _, errs = parser.NewSerialParser().Parse(text)
			} else {
				leg = fmt.Sprintf("parallel%d", n)
				rs, _, errs = parser.NewParallelParser(n).Parse(text)
			}
		})
		c.Mark(nil)
		if p {
			c.Violation("panic:"+leg+":"+fw.PanicSite(st), cs(), fmt.Sprintf("%s parser panicked: %v\n%s", leg, v, st))
			return
		}
		_ = rs
		if len(errs) == 0 {
			if n == 0 {
				c.Outcome("accepted-skipped")
			}
			return
		}
		if n == 0 {
			c.Eval(1)
			c.NontrivialString(text)
			c.Sample(func() any { return cs() })
		}
		facts, why := c10Errors(phys, errs)
		if why != "" {
			c.Violation("error-position:"+leg, cs(), leg+": "+why)
			return
		}
		if n == 0 {
			serialFacts = facts
			// first error on the first line at which the text stops conforming
			if ref.Verdict == sm.Invalid && ref.Lenient == "" && !ref.ZsBlank {
				c.Outcome("first-line-checked")
				if facts[0].line != ref.Line {
					c.Violation("first-error-line", cs(), fmt.Sprintf("the text stops conforming at line %d (%s) but the first error is reported on line %d (%q)", ref.Line, ref.Rule, facts[0].line, facts[0].text))
					return
				}
			} else {
				c.Outcome("first-line-not-checked")
			}
		} else if fmt.Sprint(facts) != fmt.Sprint(serialFacts) {
			c.Violation("parallel-errors-differ", cs(), fmt.Sprintf("%s reports %v, serial %v", leg, facts, serialFacts))
			return
		}
		// renderings
		if why := c10Renderings(errs, facts); why != "" {
			c.Violation("rendering:"+leg, cs(), leg+": "+why)
			return
		}
	}
	if viaCLI {
		dir := fw.Scratch()
		path := clidrv.WriteFile(dir, "c10.klg", text)
		for _, ncpu := range []int{1, 3} {
			r := clidrv.Run(clidrv.Home("home"), clidrv.Opts{Now: fixedNow, NumCpus: ncpu, Env: map[string]string{"NO_COLOR": "1"}}, "print", path)
			if r.Panicked {
				c.Violation("panic:cli-print:"+fw.PanicSite(r.Stack), cs(), fmt.Sprintf("`klog print` (%d CPUs) panicked while reporting the errors: %v\n%s", ncpu, r.PanicVal, r.Stack))
				return
			}
			if r.Code == 0 {
				c.Violation("cli-exit-code", cs(), "`klog print` exits 0 on a file with syntax errors")
				return
			}
			if why := c10ParseTerminal(r.Err, serialFacts, path); why != "" {
				c.Violation("cli-terminal-report", cs(), fmt.Sprintf("`klog print` (%d CPUs): %s\n%s", ncpu, why, r.Err))
				return
			}
			r = clidrv.Run(clidrv.Home("home"), clidrv.Opts{Now: fixedNow, NumCpus: ncpu}, "json", path)
			if r.Panicked || r.Code != 0 {
				c.Violation("cli-json-report", cs(), fmt.Sprintf("`klog json` (%d CPUs) failed: exit %d panic %v %s", ncpu, r.Code, r.PanicVal, r.Err))
				return
			}
			if why := c10ParseJSON(r.Stdout, serialFacts, path); why != "" {
				c.Violation("cli-json-report", cs(), fmt.Sprintf("`klog json` (%d CPUs): %s\n%s", ncpu, why, r.Stdout))
				return
			}
		}
		// the same text piped through standard input (no file argument): the same errors at the same places
		if text != "" {
			in := text
			r := clidrv.Run(clidrv.Home("home-nobookmarks"), clidrv.Opts{Now: fixedNow, OSStdin: &in, Env: map[string]string{"NO_COLOR": "1"}}, "print")
			if r.Panicked || r.Code == 0 {
				c.Violation("cli-stdin-report", cs(), fmt.Sprintf("`klog print` with the text on standard input: exit %d, panic %v\n%s", r.Code, r.PanicVal, r.Stdout))
				return
			}
			if why := c10ParseTerminal(r.Err, serialFacts, ""); why != "" {
				c.Violation("cli-stdin-report", cs(), fmt.Sprintf("`klog print` with the text on standard input: %s\n%s", why, r.Err))
				return
			}
			r = clidrv.Run(clidrv.Home("home-nobookmarks"), clidrv.Opts{Now: fixedNow, OSStdin: &in}, "json")
			if r.Panicked || r.Code != 0 {
				c.Violation("cli-stdin-report", cs(), fmt.Sprintf("`klog json` with the text on standard input failed: exit %d panic %v %s", r.Code, r.PanicVal, r.Err))
				return
			}
			if why := c10ParseJSON(r.Stdout, serialFacts, ""); why != "" {
				c.Violation("cli-stdin-report", cs(), fmt.Sprintf("`klog json` with the text on standard input: %s\n%s", why, r.Stdout))
				return
			}
			c.Count("stdin_reports", 1)
		}
		c.Outcome("via-cli")
	}
}

// c10Errors checks the positional facts of every error against the physical lines.
func c10Errors(phys []sm.PLine, errs []txt.Error) ([]errFacts, string) {
	var out []errFacts
	last := 0
	for i, e := range errs {
		var f errFacts
		if p, v, _ := tryRun(func() {
			f = errFacts{line: e.LineNumber(), pos: e.Position(), length: e.Length(), text: e.LineText(), title: e.Title(), details: e.Details()}
		}); p {
			return nil, fmt.Sprintf("error %d (%s): accessor panicked: %v", i, e.Code(), v)
		}
		if f.line < 1 || f.line > len(phys) {
			return nil, fmt.Sprintf("error %d (%s) names line %d, the text has %d lines", i, e.Code(), f.line, len(phys))
		}
		if f.text != phys[f.line-1].Text {
			return nil, fmt.Sprintf("error %d (%s) on line %d quotes %q, the line is %q", i, e.Code(), f.line, f.text, phys[f.line-1].Text)
		}
		runes := utf8.RuneCountInString(f.text)
		if f.pos < 0 || f.length < 0 || f.pos+f.length > runes+1 {
			return nil, fmt.Sprintf("error %d (%s) on line %d: position %d, length %d, but the line has %d characters (%q)", i, e.Code(), f.line, f.pos, f.length, runes, f.text)
		}
		if e.Column() != f.pos+1 {
			return nil, fmt.Sprintf("error %d: Column() = %d, Position() = %d", i, e.Column(), f.pos)
		}
		if f.line < last {
			return nil, fmt.Sprintf("errors are not in ascending line order: line %d after line %d", f.line, last)
		}
		last = f.line
		out = append(out, f)
	}
	return out, ""
}

func c10Renderings(errs []txt.Error, facts []errFacts) string {
	var term, js string
	if p, v, st := tryRun(func() {
		term = cliutil.PrettifyParsingError(app.NewParserErrors(errs), tf.NewStyler(tf.COLOUR_THEME_NO_COLOUR)).Error()
		js = kjson.ToJson(nil, errs, false)
		_ = cliutil.PrettifyParsingError(app.NewParserErrors(errs), tf.NewStyler(tf.COLOUR_THEME_DARK)).Error()
		_ = kjson.ToJson(nil, errs, true)
	}); p {
		return fmt.Sprintf("rendering the errors panicked: %v\n%s", v, st)
	}
	if why := c10ParseTerminal(term, facts, ""); why != "" {
		return "terminal report: " + why + "\n" + term
	}
	if why := c10ParseJSON(js, facts, ""); why != "" {
		return "JSON report: " + why + "\n" + js
	}
	return ""
}

// c10ParseTerminal reads the terminal report back: for each error a header line
// "[SYNTAX ERROR] in line N[ of file F]", the quoted line (tabs as spaces), the caret line.
func c10ParseTerminal(report string, facts []errFacts, file string) string {
	lines := strings.Split(report, "\n")
	k := 0
	for i := 0; i < len(lines); i++ {
		if !strings.HasPrefix(lines[i], "[SYNTAX ERROR] in line ") {
			continue
		}
		if k >= len(facts) {
			return "more errors in the report than returned by the parser"
		}
		f := facts[k]
		want := fmt.Sprintf("[SYNTAX ERROR] in line %d", f.line)
		if file != "" {
			want += " of file " + file
		}
		if lines[i] != want {
			return fmt.Sprintf("header %q, expected %q", lines[i], want)
		}
		if i+2 >= len(lines) {
			return "report truncated"
		}
		// the quoted text may itself contain line feeds only if the line text does (it cannot)
		if got, w := lines[i+1], "    "+strings.ReplaceAll(f.text, "\t", " "); got != w {
			return fmt.Sprintf("quoted line %q, expected %q", got, w)
		}
		if got, w := lines[i+2], "    "+strings.Repeat(" ", f.pos)+strings.Repeat("^", f.length); got != w {
			return fmt.Sprintf("caret line %q, expected %q (position %d, length %d)", got, w, f.pos, f.length)
		}
		k++
	}
	if k != len(facts) {
		return fmt.Sprintf("%d errors in the report, %d returned by the parser", k, len(facts))
	}
	return ""
}

func c10ParseJSON(out string, facts []errFacts, file string) string {
	var env struct {
		Records any `json:"records"`
		Errors  []struct {
			Line    int    `json:"line"`
			Column  int    `json:"column"`
			Length  int    `json:"length"`
			Title   string `json:"title"`
			Details string `json:"details"`
			File    string `json:"file"`
		} `json:"errors"`
	}
	if err := json.Unmarshal([]byte(out), &env); err != nil {
		return "not valid JSON: " + err.Error()
	}
	if env.Records != nil {
		return "records is not null"
	}
	if len(env.Errors) != len(facts) {
		return fmt.Sprintf("%d error objects, %d errors", len(env.Errors), len(facts))
	}
	for i, e := range env.Errors {
		f := facts[i]
		if e.Line != f.line || e.Column != f.pos+1 || e.Length != f.length || e.Title != f.title || e.Details != f.details || e.File != file {
			return fmt.Sprintf("error object %d is {line %d, column %d, length %d, %q, file %q}; the error is line %d, column %d, length %d, %q, file %q", i, e.Line, e.Column, e.Length, e.Title, e.File, f.line, f.pos+1, f.length, f.title, file)
		}
	}
	return ""
}
