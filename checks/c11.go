//go:build verif

package checks

import (
	"encoding/json"
	"fmt"
	"os"
	"path/filepath"
	"sort"
	"strings"

	"github.com/jotaen/klog/klog/verifrt/vrt"

	"klogverif/clidrv"
	"klogverif/docgen"
	"klogverif/explore"
	"klogverif/fw"
	sm "klogverif/specmodel"
)

// C11 — inserted text follows the file's own style, deterministically.

type c11Style struct {
	unit  string // "" = the record has no entries
	eol   string
	slash bool
	clock int // 0 = no times, 24, 12
	dash  int // sm.DashSpaced / sm.DashNone (only meaningful with times)
	ph    int // 0 = no open range, else number of '?'
}

// twelve diverse per-record styles (ties between them occur in the pairs/triples)
var c11Styles = []c11Style{
	{"    ", "\n", false, 24, sm.DashSpaced, 1},
	{"\t", "\r\n", true, 12, sm.DashNone, 3},
	{"  ", "\n", false, 0, 0, 0},
	{"   ", "\r\n", false, 24, sm.DashNone, 0},
	{"", "\n", true, 0, 0, 0},
	{"\t", "\n", false, 12, sm.DashSpaced, 2},
	{"  ", "\r\n", true, 24, sm.DashSpaced, 0},
	{"    ", "\r\n", true, 12, sm.DashNone, 1},
	{"", "\r\n", false, 0, 0, 0},
	{"   ", "\n", true, 24, sm.DashNone, 2},
	{"    ", "\n", true, 0, 0, 0},
	{"\t", "\n", true, 24, sm.DashSpaced, 0},
}

func c11Record(day int, st c11Style) []sm.PLine {
	d := sm.DateLit{Date: sm.FromDayNumber(day), Slash: st.slash}
	var ls []sm.PLine
	ls = append(ls, sm.PLine{Text: d.String(), EOL: st.eol})
	if st.unit == "" {
		ls = append(ls, sm.PLine{Text: "Just a summary", EOL: st.eol})
		return ls
	}
	ls = append(ls, sm.PLine{Text: st.unit + "30m text", EOL: st.eol})
	if st.clock != 0 {
		t := func(m int) string { return sm.TimeLit{Mins: m, TwelveH: st.clock == 12}.String() }
		dash := " - "
		if st.dash == sm.DashNone {
			dash = "-"
		}
		ls = append(ls, sm.PLine{Text: st.unit + t(8*60) + dash + t(9*60+30) + " work", EOL: st.eol})
		if st.ph > 0 {
			ls = append(ls, sm.PLine{Text: st.unit + t(13*60) + dash + strings.Repeat("?", st.ph) + " open #t", EOL: st.eol})
			ls = append(ls, sm.PLine{Text: st.unit + st.unit + "continued", EOL: st.eol})
		}
	}
	return ls
}

// whitespace / end-of-file variants
var c11Variants = []struct {
	name            string
	before, between []string
	after           []string
	noFinalEOL      bool
}{
	{"plain", nil, []string{""}, nil, false},
	{"no-final-newline", nil, []string{""}, nil, true},
	{"spaces-line-before", []string{"  "}, []string{""}, nil, false},
	{"tab-line-between", nil, []string{"\t"}, []string{""}, false},
	{"spaces-lines-everywhere", []string{"", "   "}, []string{"  ", ""}, []string{" "}, true},
	{"tab-before-4-between", []string{"\t"}, []string{"    "}, nil, false},
}

const (
	c11Today = 738000 // day number of "today" (2020-07-28)
)

func c11Doc(styleIdx []int, variant int) string {
	v := c11Variants[variant]
	// record dates: descending gaps so that "today" is the LAST record when there are several; the
	// first record is today-20, the second today-10, the last today (or today when alone)
	var lines []sm.PLine
	eolOf := func(i int) string { return c11Styles[styleIdx[i]].eol }
	for _, b := range v.before {
		lines = append(lines, sm.PLine{Text: b, EOL: eolOf(0)})
	}
	for i, si := range styleIdx {
		if i > 0 {
			for _, b := range v.between {
				lines = append(lines, sm.PLine{Text: b, EOL: eolOf(i - 1)})
			}
		}
		day := c11Today - 10*(len(styleIdx)-1-i)
		lines = append(lines, c11Record(day, c11Styles[si])...)
	}
	for _, b := range v.after {
		lines = append(lines, sm.PLine{Text: b, EOL: eolOf(len(styleIdx) - 1)})
	}
	if v.noFinalEOL {
		lines[len(lines)-1].EOL = ""
	}
	var sb strings.Builder
	for _, l := range lines {
		sb.WriteString(l.Text + l.EOL)
	}
	return sb.String()
}

func c11Ops() []Op {
	dT := sm.DateLit{Date: sm.FromDayNumber(c11Today)}.String()
	dFirst := sm.DateLit{Date: sm.FromDayNumber(c11Today - 20)}.String()
	dMid := sm.DateLit{Date: sm.FromDayNumber(c11Today - 10)}.String()
	return []Op{
		{Kind: "track", Entry: "1h tracked"},
		{Kind: "track", Entry: "2h multi\nline"},
		{Kind: "track", Date: dFirst, Entry: "15m"},
		{Kind: "track", Rel: "tomorrow", Entry: "15m new record after"},
		{Kind: "track", Rel: "yesterday", Entry: "15m new record between/after"},
		{Kind: "start"},
		{Kind: "start", HasSum: true, Summary: "s1\ns2"},
		{Kind: "start", Date: dMid, Time: "10:00pm"},
		{Kind: "start", Rel: "tomorrow"},
		{Kind: "start", Rel: "yesterday", Round: "15m"},
		{Kind: "stop"},
		{Kind: "stop", HasSum: true, Summary: "done\nmore"},
		{Kind: "stop", Date: dMid, Time: "23:00"},
		{Kind: "switch"},
		{Kind: "switch", Date: dFirst, Time: "11:00pm", HasSum: true, Summary: "next"},
		{Kind: "pause", Ticks: []int{61}},
		{Kind: "pause", HasSum: true, Summary: "p1\np2"},
		{Kind: "create"},
		{Kind: "create", Rel: "tomorrow", Should: "8h", HasSum: true, Summary: "New\nrecord"},
		{Kind: "create", Rel: "yesterday"},
		{Kind: "create", Date: "2000/01/01"},
		{Kind: "create", Date: dT},
	}
}

var c11Configs = []CmdEnv{
	{},
	{DateFormat: "YYYY/MM/DD", TimeConv: "12h"},
	{DateFormat: "YYYY-MM-DD", TimeConv: "24h"},
	{DefaultShould: "7h30m!", TimeConv: "12h"},
}

type c11Case struct {
	Styles  []int  `json:"styles"`
	Variant int    `json:"variant"`
	Op      Op     `json:"op"`
	Config  int    `json:"config"`
	Before  fw.Txt `json:"before"`
	Map     []int  `json:"map_choices,omitempty"`
}

func c11Docs(tier fw.Tier) [][]int {
	var out [][]int
	n := len(c11Styles)
	for a := 0; a < n; a++ {
		out = append(out, []int{a})
	}
	for a := 0; a < n; a++ {
		for b := 0; b < n; b++ {
			out = append(out, []int{a, b})
		}
	}
	for a := 0; a < n; a++ {
		for b := 0; b < n; b++ {
			for c := 0; c < n; c++ {
				if tier == fw.Thorough || (a+2*b+3*c)%5 == 0 {
					out = append(out, []int{a, b, c})
				}
			}
		}
	}
	return out
}

func init() {
	fw.Register(&fw.Check{
		ID:    "C11",
		Title: "Inserted text follows the file's own style, deterministically",
		Rule: "files of 1-3 records, each record in one of 12 styles (indentation {4,3,2 spaces, tab, no entries} x LF/CRLF x date separator x clock {24h,12h,no times} x dash spacing x placeholder length {none,1,2,3}); all singles, all 144 pairs, triples (quick: every 5th, thorough: all 1728) — ties between styles occur throughout; " +
			"x 6 whitespace/end-of-file variants (plain, no final newline, whitespace-only lines before / between / after records made of spaces or tabs) x 22 commands (track, start, stop, switch, pause, create on existing first/middle/last and new before/between/after records, with and without explicit --date/--time) " +
			"x 4 configurations (unset, date_format/time_convention each way, default_should_total). Determinism: for every 5th case the command is re-run under every map-iteration order within the deviation bound (2 quick / 3 thorough) and must produce identical bytes. A case = (file, command, configuration); distinct by their hash.",
		Assumptions: []string{
			"independent style inspector on the raw bytes: a record exhibits the indentation of its entries, the line endings of its block, its date separator, the clock convention / dash spacing / placeholder length of its times; 'exhibited by the target record' is read generously (any style occurring in the target block counts)",
			"allowed style of inserted text: the target record's if it exhibits one, else any style the other records use (hence the unanimous one when they agree), else LF / four spaces / dashes / 24h / ' - ' / one '?'; explicit --date/--time values and configured date_format/time_convention take precedence",
			"whether the command must succeed comes from the abstract command model (cmdmodel.go); a valid command that klog refuses because its own insertion would mix indentation styles is a violation",
		},
		Units: func(t fw.Tier) int { return len(c11Docs(t)) },
		RunUnit: func(c *fw.Ctx, unit int) {
			st := c11Docs(c.Tier)[unit]
			n := 0
			for v := range c11Variants {
				before := c11Doc(st, v)
				for _, o := range c11Ops() {
					for ci := range c11Configs {
						n++
						c11One(c, c11Case{Styles: st, Variant: v, Op: o, Config: ci, Before: fw.Txt(before)}, (n+unit)%5 == 0, (n+unit)%31 == 0)
					}
				}
				if c.ViolationCount() > 4 || c.Expired() {
					return
				}
			}
		},
		Replay: func(c *fw.Ctx, raw json.RawMessage) {
			var cs c11Case
			if json.Unmarshal(raw, &cs) == nil {
				c11One(c, cs, true, true)
			}
		},
	})
}

// ---- style inspection on raw text

type blockStyle struct {
	unit   string
	eols   map[string]bool
	slash  bool
	clocks map[bool]bool // TwelveH -> seen
	dashes map[int]bool
	phs    map[int]bool
}

// inspect returns, per record, the styles it exhibits. lo/hi are the physical line bounds of the
// record's block (its own lines plus the adjacent blank lines).
func inspect(text string, recs []sm.Record) []blockStyle {
	lines := sm.SplitLines(text)
	out := make([]blockStyle, len(recs))
	for i, r := range recs {
		bs := blockStyle{unit: r.Unit, eols: map[string]bool{}, slash: r.Date.Slash, clocks: map[bool]bool{}, dashes: map[int]bool{}, phs: map[int]bool{}}
		lo := r.Line - 1
		for lo > 0 && plainBlank(lines[lo-1].Text) {
			lo--
		}
		hi := r.LastLine
		for hi < len(lines) && plainBlank(lines[hi].Text) {
			hi++
		}
		for k := lo; k < hi; k++ {
			if lines[k].EOL != "" {
				bs.eols[lines[k].EOL] = true
			}
		}
		for _, e := range r.Entries {
			if e.Kind == sm.KRange || e.Kind == sm.KOpenRange {
				bs.clocks[e.Start.TwelveH] = true
				if e.Kind == sm.KRange {
					bs.clocks[e.End.TwelveH] = true
				}
				if e.Dash != sm.DashIrregular {
					bs.dashes[e.Dash] = true
				}
			}
			if e.Kind == sm.KOpenRange {
				bs.phs[e.Placeholder] = true
			}
		}
		out[i] = bs
	}
	return out
}

func c11One(c *fw.Ctx, cs c11Case, exploreOrders bool, viaCLI bool) {
	before := string(cs.Before)
	o := cs.Op
	env := c11Configs[cs.Config]
	env.Today = sm.FromDayNumber(c11Today)
	env.NowMins = 14*60 + 38
	if cs.Config%2 == 1 {
		env.NowMins = 12*60 + 38 // the noon hour (12:38pm in the 12-hour convention these configurations ask for)
	}
	dir := filepath.Join(fw.Scratch(), "c11")
	os.MkdirAll(dir, 0755)
	path := filepath.Join(dir, "t.klg")
	home := clidrv.Home("home")
	refBefore := sm.ParseLenient(before)
	if refBefore.Verdict != sm.Valid {
		harnessFatal("C11 generated a file the reference does not accept: %q (%s, line %d)", before, refBefore.Rule, refBefore.Line)
	}
	m := o.Apply(refBefore.Records, env)
	run := func(cli bool) (clidrv.Result, string) {
		os.WriteFile(path, []byte(before), 0644)
		var r clidrv.Result
		if cli {
			r = RunOp(home, path, o, env)
		} else {
			r, _ = ExecOp(home, path, o, env)
		}
		return r, clidrv.ReadFile(path)
	}
	var r clidrv.Result
	var after string
	r, after = run(viaCLI && cs.Map == nil)
	if cs.Map != nil {
		// replay of a recorded map-iteration order: compare with the canonical order
		rec := &explore.Recorder{Prefix: cs.Map}
		vrt.SetMapChooser(rec.Choose)
		r2, after2 := run(false)
		vrt.SetMapChooser(nil)
		if r2.Code != r.Code || after2 != after {
			c.Violation("nondeterministic:"+o.Kind, cs, fmt.Sprintf("`klog %s` gives different results for different map iteration orders (choices %v):\nfirst:  exit %d %q\nsecond: exit %d %q", o.String(), cs.Map, r.Code, after, r2.Code, after2))
		}
		return
	}
	c.Eval(1)
	c.Nontrivial(fw.HashMix(fw.HashMix(fw.HashString(before), fw.HashString(o.String())), uint64(cs.Config)))
	if r.Panicked {
		c.Violation("panic:"+o.Kind+":"+fw.PanicSite(r.Stack), cs, fmt.Sprintf("`klog %s` panicked: %v\n%s", o.String(), r.PanicVal, r.Stack))
		return
	}
	if m.DontCare != "" {
		c.Outcome("dont-care")
		return
	}
	if !m.OK {
		c.Outcome("model-rejects")
		if r.Code == 0 {
			c.Outcome("model-rejects-but-klog-accepts") // C04's subject
		}
		return
	}
	if r.Code != 0 {
		c.Violation("valid-command-refused:"+o.Kind, cs, fmt.Sprintf("`klog %s` is a valid command on this valid file but was refused (exit %d: %s)\nfile: %q", o.String(), r.Code, strings.TrimSpace(r.Err), before))
		return
	}
	refAfter := sm.ParseLenient(after)
	if refAfter.Verdict != sm.Valid {
		c.Violation("result-invalid:"+o.Kind, cs, fmt.Sprintf("`klog %s` left an invalid file (line %d: %s)\nbefore: %q\nafter:  %q", o.String(), refAfter.Line, refAfter.Rule, before, after))
		return
	}
	if _, _, errs, p, _, _ := klogParse(after); p || len(errs) > 0 {
		c.Violation("result-rejected:"+o.Kind, cs, fmt.Sprintf("klog does not accept its own result: %s\n%q", errSummary(errs), after))
		return
	}
	c.Outcome("ok:" + o.Kind)
	if why := c11Rule(before, after, refBefore.Records, refAfter.Records, o, env, m); why != "" {
		c.Violation("style:"+o.Kind, cs, fmt.Sprintf("`klog %s` (config %q): %s\nbefore: %q\nafter:  %q", o.String(), env.ConfigFile(), why, before, after))
		return
	}
	c.Sample(func() any { return map[string]any{"case": cs, "after": after} })
	// ---- determinism: every map-iteration order gives the same bytes
	if exploreOrders && cs.Map == nil {
		bound := 2
		if c.Tier == fw.Thorough {
			bound = 3
		}
		if !instrumented() {
			c.Cap("the build is not instrumented (goinstr fallback): map iteration orders are not explored")
			return
		}
		st, err := explore.DFS(bound, 5000, func(rec *explore.Recorder) bool {
			vrt.SetMapChooser(rec.Choose)
			r2, after2 := run(false)
			vrt.SetMapChooser(nil)
			c.Count("map_order_executions", 1)
			if r2.Code != r.Code || after2 != after {
				cs2 := cs
				cs2.Map = rec.Choices()
				c.Violation("nondeterministic:"+o.Kind, cs2, fmt.Sprintf("`klog %s` gives different results for different map iteration orders (choices %v):\nfirst:  exit %d %q\nsecond: exit %d %q", o.String(), rec.Choices(), r.Code, after, r2.Code, after2))
				return false
			}
			return true
		})
		if err != nil {
			harnessFatal("map-order exploration: %v", err)
		}
		c.Max("map_choice_points", int64(st.MaxPoints))
		if st.Capped {
			c.Cap("map-order exploration capped at 5000 executions for one case")
		}
	}
}

func setStr(m map[string]bool) []string {
	var out []string
	for k := range m {
		out = append(out, k)
	}
	sort.Strings(out)
	return out
}

// c11Rule checks the style of what was inserted.
func c11Rule(before, after string, recsB, recsA []sm.Record, o Op, env CmdEnv, m ModelResult) string {
	B, A := sm.SplitLines(before), sm.SplitLines(after)
	stB := inspect(before, recsB)
	// which record of `before` is the target (nil if a new record is created)?
	target := -1
	newAt := m.NewAt
	if newAt < 0 {
		// the record whose content changed
		for i := range recsB {
			if i < len(recsA) && valueCanon(recsB[i:i+1]) != valueCanon(recsA[i:i+1]) {
				target = i
				break
			}
		}
		if target < 0 {
			return ""
		}
	} else if m.AnyPos {
		// locate the new record in `after`
		for i := range recsA {
			rest := append(append([]sm.Record{}, recsA[:i]...), recsA[i+1:]...)
			if valueCanon(rest) == valueCanon(recsB) {
				newAt = i
				break
			}
		}
	}
	// ---- allowed styles
	others := func(f func(bs blockStyle) []string) []string {
		set := map[string]bool{}
		for i, bs := range stB {
			if i == target {
				continue
			}
			for _, v := range f(bs) {
				set[v] = true
			}
		}
		return setStr(set)
	}
	pick := func(f func(bs blockStyle) []string, def string) []string {
		if target >= 0 {
			if own := f(stB[target]); len(own) > 0 {
				return own
			}
		}
		if oth := others(f); len(oth) > 0 {
			return oth
		}
		return []string{def}
	}
	eolF := func(bs blockStyle) []string { return setStr(bs.eols) }
	unitF := func(bs blockStyle) []string {
		if bs.unit == "" {
			return nil
		}
		return []string{bs.unit}
	}
	in := func(xs []string, x string) bool {
		for _, y := range xs {
			if y == x {
				return true
			}
		}
		return false
	}
	allowedEOL := pick(eolF, "\n")
	allowedUnit := pick(unitF, "    ")
	// ---- inserted lines (longest common prefix / suffix of physical lines)
	nb, na := len(B), len(A)
	p := 0
	for p < nb && p < na && B[p].Text == A[p].Text && (B[p].EOL == A[p].EOL || (p == nb-1 && B[p].EOL == "")) {
		p++
	}
	s := 0
	for s < nb-p && s < na-p && B[nb-1-s] == A[na-1-s] {
		s++
	}
	// a final unterminated line that gained an ending
	if nb > 0 && B[nb-1].EOL == "" && na > nb && nb-1 < p && A[nb-1].EOL != "" {
		if !in(allowedEOL, A[nb-1].EOL) {
			return fmt.Sprintf("the formerly last line received the line ending %q, allowed here: %q", A[nb-1].EOL, allowedEOL)
		}
	}
	changedB := nb - s - p
	for k := p; k < na-s; k++ {
		l := A[k]
		// for stop/switch the first lines of the changed region are rewritten original lines, not new ones
		if (o.Kind == "stop" || o.Kind == "switch") && k-p < changedB {
			continue
		}
		if l.EOL != "" && !in(allowedEOL, l.EOL) {
			return fmt.Sprintf("added line %d %q ends with %q, allowed here: %q", k+1, l.Text, l.EOL, allowedEOL)
		}
		if l.EOL == "" && k != na-1 {
			return fmt.Sprintf("added line %d has no line ending", k+1)
		}
		// indentation of added entry lines
		ws := l.Text[:len(l.Text)-len(strings.TrimLeft(l.Text, " \t"))]
		if ws != "" && len(strings.TrimSpace(l.Text)) > 0 {
			ok := false
			for _, u := range allowedUnit {
				if ws == u || strings.HasPrefix(ws, u+u) {
					ok = true
				}
			}
			if !ok {
				return fmt.Sprintf("added line %d %q is indented with %q, allowed here: %q", k+1, l.Text, ws, allowedUnit)
			}
		}
	}
	// ---- generated date (new record without explicit --date)
	if m.NewAt >= 0 && o.Date == "" && newAt < len(recsA) {
		got := recsA[newAt].Date.Slash
		var allowed []bool
		switch env.DateFormat {
		case "YYYY/MM/DD":
			allowed = []bool{true}
		case "YYYY-MM-DD":
			allowed = []bool{false}
		default:
			set := map[bool]bool{}
			for _, bs := range stB {
				set[bs.slash] = true
			}
			for k := range set {
				allowed = append(allowed, k)
			}
			if len(allowed) == 0 {
				allowed = []bool{false}
			}
		}
		okSep := false
		for _, a := range allowed {
			if a == got {
				okSep = true
			}
		}
		if !okSep {
			return fmt.Sprintf("the generated date uses slash=%v, allowed here: %v", got, allowed)
		}
	}
	// ---- generated times: clock convention, dash spacing, placeholder length
	if o.Kind == "start" || o.Kind == "stop" || o.Kind == "switch" {
		ti := target
		if m.NewAt >= 0 {
			ti = -1
		}
		// the record in `after`
		var recA *sm.Record
		if m.NewAt >= 0 {
			recA = &recsA[newAt]
		} else {
			recA = &recsA[target]
		}
		clockAllowed := func() []bool {
			if env.TimeConv == "12h" {
				return []bool{true}
			}
			if env.TimeConv == "24h" {
				return []bool{false}
			}
			var out []bool
			if ti >= 0 && len(stB[ti].clocks) > 0 {
				for k := range stB[ti].clocks {
					out = append(out, k)
				}
				return out
			}
			set := map[bool]bool{}
			for i, bs := range stB {
				if i == ti {
					continue
				}
				for k := range bs.clocks {
					set[k] = true
				}
			}
			for k := range set {
				out = append(out, k)
			}
			if len(out) == 0 {
				out = []bool{false}
			}
			return out
		}()
		inB := func(xs []bool, x bool) bool {
			for _, y := range xs {
				if y == x {
					return true
				}
			}
			return false
		}
		intsAllowed := func(f func(bs blockStyle) map[int]bool, def int) []int {
			var out []int
			if ti >= 0 && len(f(stB[ti])) > 0 {
				for k := range f(stB[ti]) {
					out = append(out, k)
				}
				return out
			}
			set := map[int]bool{}
			for i, bs := range stB {
				if i == ti {
					continue
				}
				for k := range f(bs) {
					set[k] = true
				}
			}
			for k := range set {
				out = append(out, k)
			}
			if len(out) == 0 {
				out = []int{def}
			}
			sort.Ints(out)
			return out
		}
		inI := func(xs []int, x int) bool {
			for _, y := range xs {
				if y == x {
					return true
				}
			}
			return false
		}
		if o.Kind == "stop" || o.Kind == "switch" {
			// the closed range: the entry that was the open range
			oi := recsB[target].OpenRange()
			e := recA.Entries[oi]
			if o.Time == "" && !inB(clockAllowed, e.End.TwelveH) {
				return fmt.Sprintf("the generated end time is written 12h=%v, allowed here: %v", e.End.TwelveH, clockAllowed)
			}
		}
		if o.Kind == "start" || o.Kind == "switch" {
			e := recA.Entries[len(recA.Entries)-1]
			if o.Time == "" && !inB(clockAllowed, e.Start.TwelveH) {
				return fmt.Sprintf("the generated start time is written 12h=%v, allowed here: %v", e.Start.TwelveH, clockAllowed)
			}
			if a := intsAllowed(func(bs blockStyle) map[int]bool { return bs.dashes }, sm.DashSpaced); !inI(a, e.Dash) {
				return fmt.Sprintf("the new open range uses dash spacing %s, allowed here: %v (1 = spaced, 0 = none)", dashName(e.Dash), a)
			}
			if a := intsAllowed(func(bs blockStyle) map[int]bool { return bs.phs }, 1); !inI(a, e.Placeholder) {
				return fmt.Sprintf("the new open range has a placeholder of %d '?', allowed here: %v", e.Placeholder, a)
			}
		}
	}
	_ = docgen.DefaultLayout
	return ""
}
