//go:build verif

package checks

import (
	"encoding/json"
	"fmt"
	"sort"
	"strconv"
	"strings"
	gotime "time"

	"github.com/jotaen/klog/klog"
	"github.com/jotaen/klog/klog/app/cli"
	cliutil "github.com/jotaen/klog/klog/app/cli/util"
	"github.com/jotaen/klog/klog/service"

	"klogverif/clidrv"
	"klogverif/docgen"
	"klogverif/fw"
	sm "klogverif/specmodel"
)

// C12 — all evaluation views partition the same total.

// c12Dates: calendar-boundary set (ISO week-year edges around 52- and 53-week years, leap days,
// quarter/month ends, the ends of the representable range, century years).
func c12Dates() []sm.Date {
	var ds []sm.Date
	add := func(y, m, d int) { ds = append(ds, sm.Date{Y: y, M: m, D: d}) }
	for _, y := range []int{2020, 2021} { // 2020 has 53 weeks; 2021-01-03 is still week 53 of 2020
		add(y, 12, 27)
		add(y, 12, 28)
		add(y, 12, 31)
		add(y+1, 1, 1)
		add(y+1, 1, 3)
		add(y+1, 1, 4)
	}
	// a week 1 that begins in December (Mon 2018-12-31 = 2019-W01) next to week 1 of the year it begins in
	add(2018, 1, 3)
	add(2018, 12, 31)
	add(2019, 1, 2)
	add(2024, 12, 30)
	add(2024, 2, 28)
	add(2024, 2, 29)
	add(2024, 3, 1)
	add(2023, 2, 28)
	add(2023, 3, 1)
	for _, m := range []int{3, 6, 9} {
		add(2023, m, 30)
		add(2023, m+1, 1)
	}
	add(2023, 3, 31)
	add(2023, 7, 31)
	add(2023, 8, 1)
	add(2023, 6, 18) // Sunday
	add(2023, 6, 19) // Monday
	add(2023, 6, 25)
	add(1900, 2, 28)
	add(1900, 3, 1)
	add(2000, 2, 29)
	add(0, 1, 1) // Saturday; ISO week 52 of the year before year 0
	add(0, 1, 2)
	add(0, 1, 3)
	add(0, 1, 9)
	add(0, 1, 10)
	add(0, 12, 31)
	add(1, 1, 1)
	add(9999, 12, 19)
	add(9999, 12, 20)
	add(9999, 12, 26)
	add(9998, 12, 31)
	add(9999, 1, 1)
	add(999, 12, 31)
	add(1000, 1, 1)
	return ds
}

type c12Case struct {
	Fam  string   `json:"fam"`
	I    int      `json:"i"`
	Text fw.Txt   `json:"text"`
	Args []string `json:"args"`
}

var c12Aggs = []string{"day", "week", "month", "quarter", "year"}

func c12Count(tier fw.Tier) []int {
	n := len(c12Dates())
	return []int{n * n, n * n * n, 80, c06EvCount(fw.Quick) * len(c12EvClocks), c12SpellingDocs}
}

// documents for the spelling family (every c12SpellingStride-th pair)
const c12SpellingDocs, c12SpellingStride = 40, 53

// c12Spellings: the views do not depend on how the command line is spelled - short flags, upper-case and
// one-letter enum values must print exactly what the canonical long spelling prints.
func c12Spellings(c *fw.Ctx, i int) {
	text, recs := c12Build(i*c12SpellingStride, 2)
	fill := "--fill"
	if d := recs[0].day - recs[1].day; d > 800 || d < -800 {
		fill = "--diff" // (a harmless repetition) no gap filling over millennia: resource use is not in the quantifier
	}
	dir := fw.Scratch()
	home := clidrv.Home("home")
	path := clidrv.WriteFile(dir, "c12sp.klg", text)
	type pair struct{ canon, alias []string }
	var pairs []pair
	for _, a := range [][3]string{{"day", "DAY", "d"}, {"week", "WEEK", "w"}, {"month", "MONTH", "m"}, {"quarter", "QUARTER", "q"}, {"year", "YEAR", "y"}} {
		canon := []string{"report", "--aggregate", a[0], fill, "--diff", "--chart", "--no-style"}
		short, cluster := "-f", "-fdc"
		if fill != "--fill" {
			short, cluster = "-d", "-dc"
		}
		pairs = append(pairs,
			pair{canon, []string{"report", "--aggregate", a[1], fill, "--diff", "--chart", "--no-style"}},
			pair{canon, []string{"report", "-a", a[2], short, "-d", "-c", "--no-style"}},
			pair{canon, []string{"report", "--aggregate=" + a[2], cluster, "--no-style"}})
	}
	pairs = append(pairs,
		pair{[]string{"report", "--no-style"}, []string{"report", "--aggregate", "day", "--no-style"}},
		pair{[]string{"total", "--diff", "--now", "--no-style"}, []string{"total", "-d", "-n", "--no-style"}},
		pair{[]string{"today", "--diff", "--now", "--no-style"}, []string{"today", "-dn", "--no-style"}},
		pair{[]string{"tags", "--values", "--count", "--no-style"}, []string{"tags", "-v", "-c", "--no-style"}},
		pair{[]string{"report", "--diff", "--now", "--no-style"}, []string{"report", "-d", "-n", "--no-style"}},
	)
	for _, p := range pairs {
		c.Eval(1)
		c.Nontrivial(fw.HashMix(fw.HashString(strings.Join(p.alias, " ")), uint64(i)+1<<47))
		cs := c12Case{"spelling", i, fw.Txt(text), p.alias}
		o := clidrv.Opts{Now: fixedNow}
		r0 := clidrv.Run(home, o, append(append([]string{}, p.canon...), path)...)
		r1 := clidrv.Run(home, o, append(append([]string{}, p.alias...), path)...)
		if r1.Panicked || r0.Code != r1.Code || r0.Stdout != r1.Stdout {
			c.Violation("spelling-changes-output", cs, fmt.Sprintf("`klog %s` (exit %d) prints\n%s\nbut `klog %s` (exit %d, panic %v) prints\n%s", strings.Join(p.canon, " "), r0.Code, r0.Stdout, strings.Join(p.alias, " "), r1.Code, r1.PanicVal, r1.Stdout))
			return
		}
	}
	c.Outcome("spelling")
}

// clock readings for the today-ev family (the EV documents are dated relative to 2022-06-15)
var c12EvClocks = [][2]int{{12, 0}, {23, 59}, {0, 0}}

func init() {
	fw.Register(&fw.Check{
		ID:    "C12",
		Title: "All evaluation views partition the same total",
		Rule: "files of 2 (all ordered pairs) and 3 (quick: a fixed quarter of the ordered triples, thorough: all) records dated from a " + fmt.Sprint(len(c12Dates())) + "-date calendar-boundary set (week-year edges of 52/53-week years, leap days, month/quarter/year ends, years 0000/0001/0999/1000/9998/9999), " +
			"in file order as enumerated (unsorted, descending and duplicate dates occur); record i carries a total of 2^i minutes (so a row total identifies exactly which records it contains), a should-total and, in a variant, a negative total; " +
			"x aggregation {day, week, month, quarter, year} x {plain, --fill (span <= 800 days), --diff, --fill --diff} (every other document also with --chart) x date filter {none, --since/--until, --period}; plus 80 today/--now documents, plus today-ev = every EV document of C06's quick tier (one record of 3 clock-relative dates x 4 should-totals x <=2 of 8 extreme/narrow/wide/open entries, optional second record) x 3 clock readings x {--diff, --diff --now}: the complete `klog today` table (Total, Should, Diff and forecast End-Time of the current-day row, the Other row and the All row) against the reference evaluation. " +
			"plus a spelling family: on 40 documents, short flags (also clustered, -fdc), upper-case and one-letter --aggregate values must print exactly what the canonical spelling prints. " +
			"A case = (file, report flags); non-trivial = at least one row; distinct by hash(text, flags).",
		Assumptions: []string{
			"independent bucketing by the specmodel calendar; rows are read back from `klog report --decimal --no-style` by fixed label columns (year, month, weekday/day, week, quarter) and by the '=' ruler for value columns",
			"the command struct cli.Report runs on the real context for every case; every 50th case also through klog.Run with real flag decoding; `klog total` and `klog today` through klog.Run",
		},
		Units: func(t fw.Tier) int { return len(planSpans(c12Count(t), 1600)) },
		RunUnit: func(c *fw.Ctx, unit int) {
			sp := planSpans(c12Count(c.Tier), 1600)[unit]
			for i := sp.lo; i < sp.hi; i++ {
				switch sp.fam {
				case 0:
					c12Doc(c, "pairs", i, 2)
				case 1:
					// quick: every triple whose index digits sum to a multiple of 4 (a fixed quarter); thorough: all
					if c.Tier == fw.Thorough || c12DigitSum(i)%4 == 0 {
						c12Doc(c, "triples", i, 3)
					}
				case 2:
					c12Today(c, i)
				case 3:
					c12TodayEV(c, i)
				default:
					c12Spellings(c, i)
				}
				if c.Expired() {
					return
				}
			}
		},
		Replay: func(c *fw.Ctx, raw json.RawMessage) {
			var cs c12Case
			if json.Unmarshal(raw, &cs) != nil {
				return
			}
			switch cs.Fam {
			case "pairs":
				c12Doc(c, cs.Fam, cs.I, 2)
			case "triples":
				c12Doc(c, cs.Fam, cs.I, 3)
			case "today-ev":
				c12TodayEV(c, cs.I)
			case "spelling":
				c12Spellings(c, cs.I)
			default:
				c12Today(c, cs.I)
			}
		},
	})
}

func c12DigitSum(i int) int {
	n := len(c12Dates())
	return i%n + (i/n)%n + (i/n/n)%n
}

type c12Rec struct {
	day    int // day number
	total  int
	should int
}

func c12Build(idx, n int) (string, []c12Rec) {
	ds := c12Dates()
	var recs []c12Rec
	text := ""
	negative := idx%7 == 3
	for k := 0; k < n; k++ {
		d := ds[idx%len(ds)]
		idx /= len(ds)
		total := 1 << uint(k)
		if negative && k == 1 {
			total = -total * 8 // -16: still identifies the subset uniquely among {1, -16, 4}
		}
		should := (k + 1) * 1000
		lit := sm.DateLit{Date: d, Slash: k == 1}
		if k > 0 {
			text += "\n"
		}
		text += fmt.Sprintf("%s (%dm!)\n    %dm\n", lit.String(), should, total)
		recs = append(recs, c12Rec{sm.DayNumber(d), total, should})
	}
	return text, recs
}

// period identity of a day for an aggregation: (a, b) pair and bounds
func c12Period(agg string, day int) (id [3]int, since, until int) {
	d := sm.FromDayNumber(day)
	switch agg {
	case "day":
		return [3]int{d.Y, d.M, d.D}, day, day
	case "week":
		y, w := sm.ISOWeek(day)
		s, u := sm.WeekBounds(day)
		return [3]int{y, w, 0}, s, u
	case "month":
		s, u := sm.MonthBounds(d.Y, d.M)
		return [3]int{d.Y, d.M, 0}, s, u
	case "quarter":
		s, u := sm.QuarterBounds(d.Y, sm.Quarter(d.M))
		return [3]int{d.Y, sm.Quarter(d.M), 0}, s, u
	}
	s, u := sm.YearBounds(d.Y)
	return [3]int{d.Y, 0, 0}, s, u
}

type c12Row struct {
	id     [3]int
	empty  bool
	total  int
	should int
	diff   int
	hasSD  bool
}

var monthAbbr = []string{"", "Jan", "Feb", "Mar", "Apr", "May", "Jun", "Jul", "Aug", "Sep", "Oct", "Nov", "Dec"}
var dayAbbr = []string{"", "Mon", "Tue", "Wed", "Thu", "Fri", "Sat", "Sun"}

// c12ParseReport reads the table back.
func c12ParseReport(out, agg string, diff bool) (rows []c12Row, grand c12Row, why string) {
	lines := strings.Split(strings.TrimRight(out, "\n"), "\n")
	if len(lines) < 3 {
		return nil, grand, "report has fewer than 3 lines"
	}
	ruler := -1
	for i, l := range lines {
		if strings.Contains(l, "=") && strings.Trim(l, " =") == "" {
			ruler = i
		}
	}
	if ruler < 1 || ruler != len(lines)-2 {
		return nil, grand, "no '=' ruler on the second last line"
	}
	// value column spans from the ruler
	var spans [][2]int
	r := lines[ruler]
	for i := 0; i < len(r); {
		if r[i] == '=' {
			j := i
			for j < len(r) && r[j] == '=' {
				j++
			}
			spans = append(spans, [2]int{i, j})
			i = j
		} else {
			i++
		}
	}
	wantCols := 1
	if diff {
		wantCols = 3
	}
	if len(spans) != wantCols {
		return nil, grand, fmt.Sprintf("%d value columns, expected %d", len(spans), wantCols)
	}
	cell := func(l string, a, b int) string {
		if a >= len(l) {
			return ""
		}
		if b > len(l) {
			b = len(l)
		}
		return strings.TrimSpace(l[a:b])
	}
	values := func(l string) (c12Row, string) {
		var row c12Row
		var vs []string
		for _, sp := range spans {
			vs = append(vs, cell(l, sp[0], sp[1]))
		}
		if vs[0] == "" {
			for _, v := range vs {
				if v != "" {
					return row, "a row without total has other values"
				}
			}
			row.empty = true
			return row, ""
		}
		// a value is decimal minutes or a duration in klog's notation
		num := func(t string) (int, error) {
			if n, err := strconv.Atoi(t); err == nil {
				return n, nil
			}
			if d, ok := sm.ParseDuration(t); ok && !d.Big {
				return d.Mins, nil
			}
			return 0, fmt.Errorf("not a number or duration")
		}
		n, err := num(vs[0])
		if err != nil {
			return row, "total is not a number: " + vs[0]
		}
		row.total = n
		if diff {
			s, e1 := num(strings.TrimSuffix(vs[1], "!"))
			d, e2 := num(strings.TrimPrefix(vs[2], "+"))
			if e1 != nil || e2 != nil {
				return row, "should/diff are not numbers: " + vs[1] + " " + vs[2]
			}
			row.should, row.diff, row.hasSD = s, d, true
		}
		return row, ""
	}
	labelEnd := spans[0][0]
	curY, curM := -1, -1
	for i := 1; i < ruler; i++ {
		l := lines[i]
		row, w := values(l)
		if w != "" {
			return nil, grand, fmt.Sprintf("row %d: %s", i, w)
		}
		lab := l
		if len(lab) > labelEnd {
			lab = lab[:labelEnd]
		}
		ys := cell(lab, 0, 4)
		if ys != "" {
			y, err := strconv.Atoi(ys)
			if err != nil {
				return nil, grand, fmt.Sprintf("row %d: year %q", i, ys)
			}
			curY = y
			curM = -1
		}
		if curY < 0 && agg != "week" {
			return nil, grand, fmt.Sprintf("row %d has no year and none to carry forward", i)
		}
		// (a week row in front of the first year label: 0000-01-01 and 0000-01-02 lie in week 52 of the ISO year
		// before year 0, which has no four-digit label; it is read as year -1 and compared like any other row)
		switch agg {
		case "day":
			ms := cell(lab, 5, 8)
			if ms != "" {
				curM = indexOf(monthAbbr, ms)
				if curM < 1 {
					return nil, grand, fmt.Sprintf("row %d: month %q", i, ms)
				}
			}
			if curM < 0 {
				return nil, grand, fmt.Sprintf("row %d has no month and none to carry forward", i)
			}
			wd := indexOf(dayAbbr, cell(lab, 9, 15))
			dd, err := strconv.Atoi(strings.TrimSuffix(cell(lab, 16, 19), "."))
			if err != nil || wd < 1 || !sm.ValidDate(curY, curM, dd) {
				return nil, grand, fmt.Sprintf("row %d: cannot read day from %q", i, lab)
			}
			if sm.Weekday(sm.DayNumber(sm.Date{Y: curY, M: curM, D: dd})) != wd {
				return nil, grand, fmt.Sprintf("row %d: %04d-%02d-%02d is labelled %s", i, curY, curM, dd, dayAbbr[wd])
			}
			row.id = [3]int{curY, curM, dd}
		case "week":
			ws := cell(lab, 5, 13)
			if !strings.HasPrefix(ws, "Week") {
				return nil, grand, fmt.Sprintf("row %d: week label %q", i, ws)
			}
			w, err := strconv.Atoi(strings.TrimSpace(strings.TrimPrefix(ws, "Week")))
			if err != nil {
				return nil, grand, fmt.Sprintf("row %d: week label %q", i, ws)
			}
			row.id = [3]int{curY, w, 0}
		case "month":
			m := indexOf(monthAbbr, cell(lab, 5, 8))
			if m < 1 {
				return nil, grand, fmt.Sprintf("row %d: month label %q", i, lab)
			}
			row.id = [3]int{curY, m, 0}
		case "quarter":
			qs := cell(lab, 5, 7)
			if len(qs) != 2 || qs[0] != 'Q' {
				return nil, grand, fmt.Sprintf("row %d: quarter label %q", i, lab)
			}
			row.id = [3]int{curY, int(qs[1] - '0'), 0}
		default:
			if ys == "" {
				return nil, grand, fmt.Sprintf("row %d: year rows must always show the year", i)
			}
			row.id = [3]int{curY, 0, 0}
		}
		rows = append(rows, row)
	}
	grand, w := values(lines[ruler+1])
	if w != "" {
		return nil, grand, "footer: " + w
	}
	return rows, grand, ""
}

func indexOf(xs []string, s string) int {
	for i, x := range xs {
		if x == s && s != "" {
			return i
		}
	}
	return -1
}

func less3(a, b [3]int) bool {
	for i := 0; i < 3; i++ {
		if a[i] != b[i] {
			return a[i] < b[i]
		}
	}
	return false
}

func c12Doc(c *fw.Ctx, fam string, idx, n int) {
	text, recs := c12Build(idx, n)
	dir := fw.Scratch()
	home := clidrv.Home("home")
	path := clidrv.WriteFile(dir, "c12.klg", text)
	in := fileArgs(path)
	minDay, maxDay := recs[0].day, recs[0].day
	for _, r := range recs {
		if r.day < minDay {
			minDay = r.day
		}
		if r.day > maxDay {
			maxDay = r.day
		}
	}
	// date filters
	type filt struct {
		name string
		args []string
		fa   cliutil.FilterArgs
		keep func(day int) bool
	}
	mid := recs[len(recs)/2].day
	md := sm.FromDayNumber(mid)
	kd := func(day int) klog.Date {
		d := sm.FromDayNumber(day)
		x, _ := klog.NewDate(d.Y, d.M, d.D)
		return x
	}
	ms, mu := sm.MonthBounds(md.Y, md.M)
	filters := []filt{
		{"none", nil, cliutil.FilterArgs{}, func(int) bool { return true }},
		{"since-until", []string{"--since", sm.DateLit{Date: sm.FromDayNumber(minDay)}.String(), "--until", sm.DateLit{Date: md}.String()},
			cliutil.FilterArgs{Since: kd(minDay), Until: kd(mid)}, func(day int) bool { return day >= minDay && day <= mid }},
	}
	if p, err := cliPeriod(fmt.Sprintf("%04d-%02d", md.Y, md.M)); err == nil {
		filters = append(filters, filt{"period", []string{"--period", fmt.Sprintf("%04d-%02d", md.Y, md.M)}, cliutil.FilterArgs{Period: p}, func(day int) bool { return day >= ms && day <= mu }})
	}
	caseNo := 0
	for _, f := range filters {
		var kept []c12Rec
		for _, r := range recs {
			if f.keep(r.day) {
				kept = append(kept, r)
			}
		}
		for _, agg := range c12Aggs {
			for variant := 0; variant < 4; variant++ {
				fill, diff := variant&1 == 1, variant&2 == 2
				kMin, kMax := 0, 0
				for i, r := range kept {
					if i == 0 || r.day < kMin {
						kMin = r.day
					}
					if i == 0 || r.day > kMax {
						kMax = r.day
					}
				}
				if fill && kMax-kMin > 800 {
					continue // resource use, not in the quantifier
				}
				caseNo++
				// every third document in klog's own duration notation (1h30m, +2h, 8h!) instead of decimal minutes
				decimal := idx%3 != 1
				args := []string{"report", "--aggregate", agg, "--no-style", "--no-warn"}
				if decimal {
					args = append(args, "--decimal")
				}
				if fill {
					args = append(args, "--fill")
				}
				if diff {
					args = append(args, "--diff")
				}
				// every other document also with the bar chart (an extra column to the right of the values)
				chart := idx%2 == 0
				if chart {
					args = append(args, "--chart")
				}
				args = append(args, f.args...)
				cs := c12Case{fam, idx, fw.Txt(text), args}
				c.Eval(1)
				cmd := &cli.Report{AggregateBy: agg, Fill: fill, Chart: chart, DiffArgs: cliutil.DiffArgs{Diff: diff}, FilterArgs: f.fa,
					DecimalArgs: cliutil.DecimalArgs{Decimal: decimal}, NoStyleArgs: cliutil.NoStyleArgs{NoStyle: true}, WarnArgs: cliutil.WarnArgs{NoWarn: true}, InputFilesArgs: in}
				r := clidrv.Exec(home, clidrv.Opts{Now: fixedNow}, cmd)
				if (idx+caseNo)%50 == 0 {
					r2 := clidrv.Run(home, clidrv.Opts{Now: fixedNow}, append(append([]string{}, args...), path)...)
					if r2.Panicked || r2.Stdout != r.Stdout || r2.Code != r.Code {
						c.Violation("cli-differs", cs, fmt.Sprintf("`klog %s` through the CLI (exit %d, panic %v) differs from the command run directly.\n%s\nvs\n%s", strings.Join(args, " "), r2.Code, r2.PanicVal, r2.Stdout, r.Stdout))
						return
					}
				}
				if r.Panicked {
					c.Violation("panic:report:"+fw.PanicSite(r.Stack), cs, fmt.Sprintf("`klog %s` panicked: %v\n%s", strings.Join(args, " "), r.PanicVal, r.Stack))
					return
				}
				if r.Code != 0 {
					c.Violation("report-failed", cs, fmt.Sprintf("`klog %s` failed: exit %d %s", strings.Join(args, " "), r.Code, r.Err))
					return
				}
				if len(kept) == 0 {
					if strings.TrimSpace(r.Stdout) != "" {
						c.Violation("report-not-empty", cs, fmt.Sprintf("no record matches the filter but the report prints\n%s", r.Stdout))
						return
					}
					c.Outcome("empty-selection")
					continue
				}
				c.Nontrivial(fw.HashMix(fw.HashString(text), fw.HashString(strings.Join(args, " "))))
				c.Sample(func() any { return map[string]any{"case": cs, "output": r.Stdout} })
				rows, grand, why := c12ParseReport(r.Stdout, agg, diff)
				if why != "" {
					c.Violation("report-unreadable", cs, fmt.Sprintf("`klog %s`: %s\n%s", strings.Join(args, " "), why, r.Stdout))
					return
				}
				// expected rows
				type bucket struct{ total, should int }
				want := map[[3]int]*bucket{}
				var order [][3]int
				addPeriod := func(id [3]int) {
					if want[id] == nil {
						want[id] = &bucket{}
						order = append(order, id)
					}
				}
				if fill {
					for d := kMin; d <= kMax; d++ {
						id, _, _ := c12Period(agg, d)
						addPeriod(id)
					}
				}
				has := map[[3]int]bool{}
				for _, rec := range kept {
					id, since, until := c12Period(agg, rec.day)
					if rec.day < since || rec.day > until {
						harnessFatal("period bounds")
					}
					addPeriod(id)
					has[id] = true
					want[id].total += rec.total
					want[id].should += rec.should
				}
				sort.Slice(order, func(i, j int) bool { return less3(order[i], order[j]) })
				if len(rows) != len(order) {
					c.Violation("report-rows", cs, fmt.Sprintf("`klog %s` prints %d rows, expected %d (%v)\n%s", strings.Join(args, " "), len(rows), len(order), order, r.Stdout))
					return
				}
				sum, sumShould := 0, 0
				for i, row := range rows {
					id := order[i]
					if row.id != id {
						c.Violation("report-row-period", cs, fmt.Sprintf("`klog %s`: row %d is period %v, expected %v (rows must be chronological, one per period)\n%s", strings.Join(args, " "), i+1, row.id, id, r.Stdout))
						return
					}
					if !has[id] {
						if !row.empty {
							c.Violation("report-filled-row", cs, fmt.Sprintf("`klog %s`: the filled row %v must contribute nothing\n%s", strings.Join(args, " "), id, r.Stdout))
							return
						}
						continue
					}
					w := want[id]
					if row.empty || row.total != w.total || (diff && (row.should != w.should || row.diff != w.total-w.should)) {
						c.Violation("report-row-value", cs, fmt.Sprintf("`klog %s`: row %v shows total %d (should %d, diff %d), the records of that period give total %d (should %d, diff %d)\n%s",
							strings.Join(args, " "), id, row.total, row.should, row.diff, w.total, w.should, w.total-w.should, r.Stdout))
						return
					}
					sum += row.total
					sumShould += row.should
				}
				if grand.empty || grand.total != sum || (diff && (grand.should != sumShould || grand.diff != sum-sumShould)) {
					c.Violation("report-grand-total", cs, fmt.Sprintf("`klog %s`: grand total %d (should %d, diff %d) is not the sum of the rows %d (%d, %d)\n%s", strings.Join(args, " "), grand.total, grand.should, grand.diff, sum, sumShould, sum-sumShould, r.Stdout))
					return
				}
				c.Outcome("report-" + agg)
			}
		}
		// print --with-totals: per record the total, per entry its value, in file order
		if len(kept) > 0 && idx%5 == 0 {
			args := append([]string{"print", "--with-totals", "--no-style", "--no-warn"}, f.args...)
			r := clidrv.Run(home, clidrv.Opts{Now: fixedNow}, append(args, path)...)
			cols, bad := printTotalsColumn(r.Stdout)
			var want []int
			for _, rec := range kept {
				want = append(want, rec.total, rec.total)
			}
			if r.Panicked || r.Code != 0 || bad != "" || fmt.Sprint(cols) != fmt.Sprint(want) {
				c.Violation("print-with-totals", c12Case{fam, idx, fw.Txt(text), args}, fmt.Sprintf("`klog %s`: the left column reads %v (unreadable: %q), expected record total and entry value per record: %v\n%s", strings.Join(args, " "), cols, bad, want, r.Stdout))
				return
			}
		}
		// the grand total equals `klog total` under the same filter
		if len(kept) > 0 && idx%5 == 0 {
			sum := 0
			for _, r := range kept {
				sum += r.total
			}
			args := append([]string{"total", "--decimal", "--no-style", "--no-warn"}, f.args...)
			r := clidrv.Run(home, clidrv.Opts{Now: fixedNow}, append(args, path)...)
			if r.Panicked || r.Code != 0 || !strings.HasPrefix(r.Stdout, fmt.Sprintf("Total: %d\n", sum)) {
				c.Violation("total-differs", c12Case{fam, idx, fw.Txt(text), args}, fmt.Sprintf("`klog %s` prints %q (exit %d), the rows sum to %d", strings.Join(args, " "), r.Stdout, r.Code, sum))
				return
			}
		}
	}
}

// c12Today: `klog today` splits the same total into current-day and other records.
func c12Today(c *fw.Ctx, i int) {
	ds := c12Dates()
	today := ds[(i*7)%len(ds)]
	if today.Y < 1 || today.Y > 9998 {
		today = sm.Date{Y: 2023, M: 3, D: 1}
	}
	t0 := sm.DayNumber(today)
	layout := i % 8
	// records: today?, yesterday?, an older one, a future one; open range in today's / yesterday's record
	text := ""
	var totals [4]int // today, yesterday, other-past, other-future
	add := func(off int, mins int, open bool, slot int) {
		d := sm.DateLit{Date: sm.FromDayNumber(t0 + off)}
		text += d.String() + "\n    " + strconv.Itoa(mins) + "m\n"
		if open {
			text += "    6:00 - ?\n"
		}
		text += "\n"
		totals[slot] += mins
	}
	hasToday, hasYesterday := layout&1 == 1, layout&2 == 2
	openToday := layout&4 == 4
	// with a record for today, yesterday's record may still carry an open range of its own (it then counts as "other")
	openYesterdayToo := hasToday && hasYesterday && (i/8)%2 == 1
	add(-40, 64, false, 2)
	if hasYesterday {
		add(-1, 2, (!hasToday && openToday) || openYesterdayToo, 1)
	}
	if hasToday {
		add(0, 1, openToday, 0)
		add(0, 16, false, 0)
	}
	add(3, 8, false, 3)
	dir := fw.Scratch()
	home := clidrv.Home("home")
	path := clidrv.WriteFile(dir, "c12.klg", text)
	for _, now := range []bool{false, true} {
		args := []string{"today", "--decimal", "--no-style", "--no-warn", "--diff"}
		if now {
			args = append(args, "--now")
		}
		cs := c12Case{"today", i, fw.Txt(text), args}
		c.Eval(1)
		c.Nontrivial(fw.HashMix(fw.HashString(text), uint64(len(args))))
		o := clidrv.Opts{Now: dateAt(today.Y, today.M, today.D, 7, 30)}
		r := clidrv.Run(home, o, append(args, path)...)
		if r.Panicked || r.Code != 0 {
			c.Violation("today-failed", cs, fmt.Sprintf("`klog %s` failed: exit %d panic %v %s", strings.Join(args, " "), r.Code, r.PanicVal, r.Err))
			return
		}
		extra := 0 // 6:00 -> 7:30 (today) or -> 7:30 next day (yesterday's record)
		if now && openToday {
			if hasToday {
				extra = 90
			} else if hasYesterday {
				extra = 90 + 1440
			}
		}
		cur, other, label := 0, 0, "Today"
		extraOther := 0
		if now && openYesterdayToo {
			extraOther = 90 + 1440 // yesterday 6:00 -> today 7:30
		}
		switch {
		case hasToday:
			cur = totals[0] + extra
			other = totals[1] + totals[2] + totals[3] + extraOther
		case hasYesterday:
			cur = totals[1] + extra
			other = totals[2] + totals[3]
			label = "Yesterday"
		default:
			other = totals[2] + totals[3]
		}
		get := func(name string) (int, bool) {
			for _, l := range strings.Split(r.Stdout, "\n") {
				f := strings.Fields(l)
				if len(f) >= 2 && f[0] == name {
					if f[1] == "n/a" {
						return 0, false
					}
					n, err := strconv.Atoi(f[1])
					return n, err == nil
				}
			}
			return 0, false
		}
		gc, okc := get(label)
		gother, oko := get("Other")
		gall, oka := get("All")
		if (hasToday || hasYesterday) != okc || !oko || !oka || (okc && gc != cur) || gother != other || gall != cur+other {
			c.Violation("today-split", cs, fmt.Sprintf("`klog %s` at %s: %s=%d(%v) Other=%d All=%d; expected %s=%d Other=%d All=%d\n%s", strings.Join(args, " "), sm.DateLit{Date: today}.String(), label, gc, okc, gother, gall, label, cur, other, cur+other, r.Stdout))
			return
		}
		// All equals `klog total [--now]`
		targs := []string{"total", "--decimal", "--no-style", "--no-warn"}
		if now {
			targs = append(targs, "--now")
		}
		rt := clidrv.Run(home, o, append(targs, path)...)
		if !strings.HasPrefix(rt.Stdout, fmt.Sprintf("Total: %d\n", gall)) {
			c.Violation("today-vs-total", cs, fmt.Sprintf("`klog today` All=%d but `klog %s` prints %q", gall, strings.Join(targs, " "), rt.Stdout))
			return
		}
		// the report's grand total under the same flags equals it, too
		rargs := []string{"report", "--decimal", "--no-style", "--no-warn", "--aggregate", []string{"day", "week", "month"}[i%3]}
		if now {
			rargs = append(rargs, "--now")
		}
		rr := clidrv.Run(home, o, append(rargs, path)...)
		lines := strings.Split(strings.TrimRight(rr.Stdout, "\n"), "\n")
		if rr.Panicked || rr.Code != 0 || len(lines) < 3 || strings.TrimSpace(lines[len(lines)-1]) != strconv.Itoa(gall) {
			c.Violation("report-vs-today", cs, fmt.Sprintf("`klog %s` (exit %d) ends with grand total %q, `klog today` All=%d\n%s", strings.Join(rargs, " "), rr.Code, lines[len(lines)-1], gall, rr.Stdout))
			return
		}
		c.Outcome("today")
	}
	_ = docgen.DefaultLayout
}

// c12TodayEV compares the complete `klog today --diff [--now]` table with the reference evaluation:
// current-day row (today's records, else yesterday's), Other row, All row; Total/Should/Diff per row and the
// forecast End-Time = now + (should - total), shown when it lies between <0:00 and 23:59>, else "???".
func c12TodayEV(c *fw.Ctx, i int) {
	n := c06EvCount(fw.Quick)
	text := c06EvDoc(fw.Quick, i%n)
	clk := c12EvClocks[i/n]
	ref := sm.Parse(text)
	if ref.Verdict != sm.Valid {
		c.Outcome("today-ev-invalid-doc") // two open ranges in one record
		return
	}
	today := sm.DayNumber(sm.Date{Y: 2022, M: 6, D: 15})
	nowMins := clk[0]*60 + clk[1]
	dir := fw.Scratch()
	home := clidrv.Home("home")
	path := clidrv.WriteFile(dir, "c12ev.klg", text)
	o := clidrv.Opts{Now: dateAt(2022, 6, 15, clk[0], clk[1])}
	for _, now := range []bool{false, true} {
		args := []string{"today", "--diff", fmt.Sprintf("@%d:%02d", clk[0], clk[1])}
		cmd := &cli.Today{DiffArgs: cliutil.DiffArgs{Diff: true}, InputFilesArgs: fileArgs(path)}
		cmd.NoStyle = true
		cmd.NoWarn = true
		recs, closedAny := ref.Records, false
		if now {
			args = append(args, "--now")
			cmd.Now = true
			closed, ok, any := sm.CloseAt(ref.Records, today, nowMins)
			if !ok {
				r := clidrv.Exec(home, o, cmd)
				if r.Panicked || r.Code == 0 {
					c.Violation("today-now-not-refused", c12Case{"today-ev", i, fw.Txt(text), args}, fmt.Sprintf("`klog today --diff --now` must refuse an open range that cannot be closed (exit %d, panic %v)\n%s", r.Code, r.PanicVal, r.Stdout))
				}
				c.Outcome("today-ev-refused")
				continue
			}
			recs, closedAny = closed, any
		}
		cs := c12Case{"today-ev", i, fw.Txt(text), args}
		c.Eval(1)
		c.Nontrivial(fw.HashMix(fw.HashString(text), uint64(i/n*2+len(args))))
		r := clidrv.Exec(home, o, cmd)
		if r.Panicked || r.Code != 0 {
			c.Violation("today-failed", cs, fmt.Sprintf("`klog %s` failed: exit %d panic %v %s\n%s", strings.Join(args, " "), r.Code, r.PanicVal, r.Err, r.Stack))
			return
		}
		// reference split
		var cur, other []sm.Record
		var yest []sm.Record
		for _, rec := range recs {
			switch sm.DayNumber(rec.Date.Date) {
			case today:
				cur = append(cur, rec)
			case today - 1:
				yest = append(yest, rec)
			default:
				other = append(other, rec)
			}
		}
		label := "Today"
		if len(cur) > 0 {
			other = append(other, yest...)
		} else if len(yest) > 0 {
			cur, label = yest, "Yesterday"
		}
		type row struct {
			label               string
			total, should, diff string
			end                 string
		}
		fmtEnd := func(rs []sm.Record) string {
			if len(cur) == 0 {
				return "n/a"
			}
			end := nowMins + sm.ShouldSum(rs) - sm.Total(rs)
			if end < -1440 || end > 2879 {
				return "???"
			}
			t := sm.TimeLit{Mins: end}.String()
			if !closedAny {
				return "(" + t + ")"
			}
			return t
		}
		signed := func(m int) string {
			if m > 0 {
				return "+" + sm.CanonicalDuration(m)
			}
			return sm.CanonicalDuration(m)
		}
		mk := func(label string, rs []sm.Record, withEnd bool) row {
			w := row{label: label, total: sm.CanonicalDuration(sm.Total(rs)), should: sm.CanonicalDuration(sm.ShouldSum(rs)) + "!", diff: signed(sm.Total(rs) - sm.ShouldSum(rs))}
			if now && withEnd {
				w.end = fmtEnd(rs)
			}
			return w
		}
		all := append(append([]sm.Record{}, cur...), other...)
		want := []row{mk(label, cur, true), mk("Other", other, false), mk("All", all, true)}
		if len(cur) == 0 {
			want[0] = row{label: "Today", total: "n/a", should: "n/a", diff: "n/a"}
			if now {
				want[0].end, want[2].end = "n/a", "n/a"
			}
		}
		var got []row
		for _, l := range strings.Split(r.Stdout, "\n") {
			f := strings.Fields(l)
			if len(f) < 4 || (f[0] != "Today" && f[0] != "Yesterday" && f[0] != "Other" && f[0] != "All") {
				continue
			}
			g := row{label: f[0], total: f[1], should: f[2], diff: f[3]}
			if len(f) > 4 {
				g.end = f[4]
			}
			got = append(got, g)
		}
		// compare VALUES (minutes), not spellings
		canon := func(rows []row) []row {
			cv := func(s string) string {
				if d, ok := sm.ParseDuration(strings.TrimSuffix(s, "!")); ok {
					return fmt.Sprint(d.Mins, "min")
				}
				return s
			}
			out := make([]row, len(rows))
			for k, w := range rows {
				out[k] = row{w.label, cv(w.total), cv(w.should), cv(w.diff), w.end}
			}
			return out
		}
		if fmt.Sprint(canon(got)) != fmt.Sprint(canon(want)) {
			c.Violation("today-table", cs, fmt.Sprintf("`klog %s` at 2022-06-15 %d:%02d shows rows %v, the reference evaluation gives %v\n%s", strings.Join(args[:2], " ")+map[bool]string{true: " --now"}[now], clk[0], clk[1], got, want, r.Stdout))
			return
		}
		c.Outcome("today-ev")
		if !now {
			continue
		}
		// `klog tags --now`: a tag's total includes the time of its open range closed at the clock reading (the EV
		// documents carry #x on the open range only)
		{
			wantX, hasX := 0, false
			for _, rec := range recs {
				for _, e := range rec.Entries {
					for _, tg := range sm.ScanSummaryTags(e.Summary) {
						if tg.Name == "x" {
							wantX, hasX = wantX+e.Minutes(), true
						}
					}
				}
			}
			rt := clidrv.Exec(home, o, &cli.Tags{NowArgs: cliutil.NowArgs{Now: true}, DecimalArgs: cliutil.DecimalArgs{Decimal: true}, NoStyleArgs: cliutil.NoStyleArgs{NoStyle: true}, WarnArgs: cliutil.WarnArgs{NoWarn: true}, InputFilesArgs: fileArgs(path)})
			gotX, foundX := 0, false
			for _, l := range strings.Split(rt.Stdout, "\n") {
				if f := strings.Fields(l); len(f) >= 2 && f[0] == "#x" {
					gotX, _ = strconv.Atoi(f[1])
					foundX = true
				}
			}
			if rt.Panicked || rt.Code != 0 || foundX != hasX || gotX != wantX {
				c.Violation("tags-now", c12Case{"today-ev", i, fw.Txt(text), []string{"tags", "--now"}}, fmt.Sprintf("`klog tags --now` at %d:%02d (exit %d, panic %v) prints\n%s\nexpected #x = %d minutes (present: %v)", clk[0], clk[1], rt.Code, rt.PanicVal, rt.Stdout, wantX, hasX))
				return
			}
		}
		// a running `klog today --diff --now --follow`: the second refresh, 30 minutes later, equals a fresh run then
		if i%8 == 0 {
			t0 := o.Now
			why, stack := followVsOneShot(home, dir, []string{text, text}, []gotime.Time{t0, t0.Add(30 * gotime.Minute)}, func(follow bool, p string) clidrv.Runner {
				return &cli.Today{DiffArgs: cliutil.DiffArgs{Diff: true}, NowArgs: cliutil.NowArgs{Now: true}, Follow: follow, NoStyleArgs: cliutil.NoStyleArgs{NoStyle: true}, WarnArgs: cliutil.WarnArgs{NoWarn: true}, InputFilesArgs: fileArgs(p)}
			})
			if why != "" {
				sig := "today-follow"
				if stack != "" {
					sig = "panic:today-follow:" + fw.PanicSite(stack)
				}
				c.Violation(sig, c12Case{"today-ev", i, fw.Txt(text), []string{"today", "--diff", "--now", "--follow"}}, why+"\n"+stack)
				return
			}
			c.Count("follow_cases", 1)
		}
		// filter first, then close: `klog total --now --entry-type T` and the grand total of `klog report` under the same
		// flags equal the reference total of the FILTERED records with their open ranges closed at the clock reading
		for _, ty := range []struct {
			name string
			et   service.EntryType
			kind sm.EntryKind
		}{{"open-range", service.ENTRY_TYPE_OPEN_RANGE, sm.KOpenRange}, {"range", service.ENTRY_TYPE_RANGE, sm.KRange}, {"duration", service.ENTRY_TYPE_DURATION, sm.KDuration}} {
			kind := ty.kind
			sel := c13Apply(ref.Records, []c13Clause{{kind: "type", entryOK: func(_ sm.Record, e sm.Entry) bool { return e.Kind == kind }}})
			closedSel, okSel, _ := sm.CloseAt(sel, today, nowMins)
			if !okSel || len(sel) == 0 {
				continue
			}
			want := sm.Total(closedSel)
			fa := cliutil.FilterArgs{EntryType: ty.et}
			targs := []string{"total", "--now", "--entry-type", ty.name, fmt.Sprintf("@%d:%02d", clk[0], clk[1])}
			tcs := c12Case{"today-ev", i, fw.Txt(text), targs}
			rt := clidrv.Exec(home, o, &cli.Total{FilterArgs: fa, NowArgs: cliutil.NowArgs{Now: true}, DecimalArgs: cliutil.DecimalArgs{Decimal: true}, NoStyleArgs: cliutil.NoStyleArgs{NoStyle: true}, WarnArgs: cliutil.WarnArgs{NoWarn: true}, InputFilesArgs: fileArgs(path)})
			if rt.Panicked || rt.Code != 0 || !strings.HasPrefix(rt.Stdout, fmt.Sprintf("Total: %d\n", want)) {
				c.Violation("total-filter-now", tcs, fmt.Sprintf("`klog total --now --entry-type %s` (exit %d, panic %v) prints %q; the filtered records, closed at %d:%02d, total %d min", ty.name, rt.Code, rt.PanicVal, rt.Stdout, clk[0], clk[1], want))
				return
			}
			rr := clidrv.Exec(home, o, &cli.Report{AggregateBy: "day", FilterArgs: fa, NowArgs: cliutil.NowArgs{Now: true}, DecimalArgs: cliutil.DecimalArgs{Decimal: true}, NoStyleArgs: cliutil.NoStyleArgs{NoStyle: true}, WarnArgs: cliutil.WarnArgs{NoWarn: true}, InputFilesArgs: fileArgs(path)})
			lines := strings.Split(strings.TrimRight(rr.Stdout, "\n"), "\n")
			if rr.Panicked || rr.Code != 0 || len(lines) < 3 || strings.TrimSpace(lines[len(lines)-1]) != strconv.Itoa(want) {
				c.Violation("report-filter-now", tcs, fmt.Sprintf("`klog report --now --entry-type %s` (exit %d) ends with grand total %q, expected %d\n%s", ty.name, rr.Code, lines[len(lines)-1], want, rr.Stdout))
				return
			}
			c.Count("filter_now_cases", 1)
		}
	}
}
