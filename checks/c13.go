//go:build verif

package checks

import (
	"encoding/json"
	"fmt"
	"sort"
	"strings"
	gotime "time"
	_ "time/tzdata" // zone rules compiled in: the TZ family must not depend on the machine

	"github.com/jotaen/klog/klog"
	"github.com/jotaen/klog/klog/app/cli"
	cliutil "github.com/jotaen/klog/klog/app/cli/util"
	"github.com/jotaen/klog/klog/service"
	"github.com/jotaen/klog/klog/service/period"

	"klogverif/clidrv"
	"klogverif/docgen"
	"klogverif/fw"
	sm "klogverif/specmodel"
)

// C13 — filters and sorting select exactly the matching data and never alter it.

var c13Files = []string{
	// calendar edges: ISO week 53 of 2020 runs 2020-12-28 .. 2021-01-03
	"2020-12-27\n    1h #a\n\n2020-12-28 (8h!)\nMonday #b\n    8:00 - 9:00 #a=1\n    -30m\n    22:00 - ?\n\n2021-01-03\n    2h #A=1 #c\n    <23:00 - 1:00 #a=2\n\n2021-01-04\n#a all day\n    3h\n    0m #b\n",
	// duplicate dates, unsorted, quarter/month ends
	"2021-04-01\n    1h #x\n\n2021-03-31\n#X=y\n    2h\n    9:00-10:00 #z\n\n2021-04-01\n    -1h #x='y' #z\n\n2021-06-30\n    12:00 - ?\n",
	// tags only at entry level, values with quotes, mixed case, a record without entries
	"2022-02-28\n    1h #Tag=\"v 1\"\n    2h #tag=v\n    3h #TAG\n    4h no tags\n\n2022-03-01\nempty #tag\n\n2024-02-29\n    8:00 - 8:00 #tag=V\n    +0m #other\n    -0m\n",
	// year boundary and leap day
	"2023-12-31\n    1h #a #b\n\n2024-01-01\n#a=1\n    2h #b=2\n    3h #a=2\n\n2024-12-31\n    23:00 - 0:30> #b\n\n2025-01-01\n    <23:30 - 0:10\n",
	// single record, every entry kind
	"2021-07-15 (7h!)\nSummary #s\n    1h\n    -1h\n    0m\n    8:00 - 9:00\n    9:00 - ? #s=1\n",
	// the two date notations mixed within one year (string order differs from calendar order)
	"2018-03-01\n    1h #m\n\n2018/01/30\n    2h #m=1\n\n2018-02-15\n    3h\n\n2017/12/31\n    4h #m\n\n2018/03/01\n    5h\n",
	// the ends of the representable calendar (reference dates 0000-01-02 .. 9999-12-30)
	"0000-01-03\n    1h #e\n\n0000-02-01\n    2h\n\n9999-11-30\n    4h\n\n9999-12-20\n    3h #e=1\n",
	// descending order
	"2021-09-10\n    1h #a\n\n2021-09-09\n    2h #a\n\n2021-09-01\n    3h #b\n\n2021-08-31\n#a\n    4h\n",
}

type c13Clause struct {
	kind string // "date" | "tag" | "type" | "sort"
	args []string
	// predicates on the reference denotation
	recOK   func(r sm.Record) bool             // date clauses
	entryOK func(r sm.Record, e sm.Entry) bool // tag / type clauses (entry-level)
	recTags []sm.Tag                           // tag clause: queried tags
	now     [3]int                             // clock for relative shortcuts (0 = default)
}

func dayOf(r sm.Record) int { return sm.DayNumber(r.Date.Date) }

func lit(day int) string { return sm.DateLit{Date: sm.FromDayNumber(day)}.String() }

func between(lo, hi int) func(sm.Record) bool {
	return func(r sm.Record) bool { d := dayOf(r); return d >= lo && d <= hi }
}

func c13DateClauses(recs []sm.Record) []c13Clause {
	var out []c13Clause
	seen := map[int]bool{}
	var days []int
	for _, r := range recs {
		for _, off := range []int{-1, 0, 1} {
			d := dayOf(r) + off
			if !seen[d] {
				seen[d] = true
				days = append(days, d)
			}
		}
	}
	sort.Ints(days)
	var inDomain []int
	for _, d := range days {
		if d >= sm.MinDay+1 && d <= sm.MaxDay-1 {
			inDomain = append(inDomain, d)
		}
	}
	days = inDomain
	inf := 1 << 30
	for _, d := range days {
		out = append(out,
			c13Clause{kind: "date", args: []string{"--date", lit(d)}, recOK: between(d, d)},
			c13Clause{kind: "date", args: []string{"--since", lit(d)}, recOK: between(d, inf)},
			c13Clause{kind: "date", args: []string{"--until", lit(d)}, recOK: between(-inf, d)},
			c13Clause{kind: "date", args: []string{"--after", lit(d)}, recOK: between(d+1, inf)},
			c13Clause{kind: "date", args: []string{"--before", lit(d)}, recOK: between(-inf, d-1)},
		)
	}
	// the two ends of the representable calendar as clause dates (nothing lies after the last / before the first date)
	for _, d := range []int{sm.MinDay, sm.MaxDay} {
		out = append(out,
			c13Clause{kind: "date", args: []string{"--date", lit(d)}, recOK: between(d, d)},
			c13Clause{kind: "date", args: []string{"--since", lit(d)}, recOK: between(d, inf)},
			c13Clause{kind: "date", args: []string{"--until", lit(d)}, recOK: between(-inf, d)},
			c13Clause{kind: "date", args: []string{"--after", lit(d)}, recOK: between(d+1, inf)},
			c13Clause{kind: "date", args: []string{"--before", lit(d)}, recOK: between(-inf, d-1)},
		)
	}
	for i, a := range days {
		for _, b := range days[i:] {
			if (a+b)%3 != 0 {
				continue
			}
			out = append(out,
				c13Clause{kind: "date", args: []string{"--since", lit(a), "--until", lit(b)}, recOK: between(a, b)},
				c13Clause{kind: "date", args: []string{"--after", lit(a), "--before", lit(b)}, recOK: between(a+1, b-1)},
				c13Clause{kind: "date", args: []string{"--since", strings.ReplaceAll(lit(b), "-", "/"), "--until", lit(a)}, recOK: between(b, a)},
			)
		}
	}
	// periods containing or adjacent to a record date
	seenP := map[string]bool{}
	addP := func(pattern string, lo, hi int) {
		if seenP[pattern] {
			return
		}
		seenP[pattern] = true
		out = append(out, c13Clause{kind: "date", args: []string{"--period", pattern}, recOK: between(lo, hi)})
	}
	for _, r := range recs {
		for _, off := range []int{0, -7, 7, -31, 31, -92, 92, -366, 366} {
			d := dayOf(r) + off
			if d < sm.MinDay+7 || d > sm.MaxDay-7 {
				continue
			}
			dt := sm.FromDayNumber(d)
			ys, yu := sm.YearBounds(dt.Y)
			addP(fmt.Sprintf("%04d", dt.Y), ys, yu)
			ms, mu := sm.MonthBounds(dt.Y, dt.M)
			addP(fmt.Sprintf("%04d-%02d", dt.Y, dt.M), ms, mu)
			qs, qu := sm.QuarterBounds(dt.Y, sm.Quarter(dt.M))
			addP(fmt.Sprintf("%04d-Q%d", dt.Y, sm.Quarter(dt.M)), qs, qu)
			wy, ww := sm.ISOWeek(d)
			ws, wu := sm.WeekBounds(d)
			addP(fmt.Sprintf("%04d-W%02d", wy, ww), ws, wu)
		}
	}
	// relative shortcuts under several clocks
	for _, r := range recs {
		for _, off := range []int{0, 1, -1, 7, -7, 31, -31, 92, 366} {
			n := dayOf(r) + off
			if n < sm.MinDay+1 || n > sm.MaxDay-1 {
				continue // reference dates whose neighbours are representable
			}
			nd := sm.FromDayNumber(n)
			now := [3]int{nd.Y, nd.M, nd.D}
			ws, wu := sm.WeekBounds(n)
			ms, mu := sm.MonthBounds(nd.Y, nd.M)
			qs, qu := sm.QuarterBounds(nd.Y, sm.Quarter(nd.M))
			ys, yu := sm.YearBounds(nd.Y)
			pm := sm.FromDayNumber(ms - 1)
			pms, pmu := sm.MonthBounds(pm.Y, pm.M)
			pq := sm.FromDayNumber(qs - 1)
			pqs, pqu := sm.QuarterBounds(pq.Y, sm.Quarter(pq.M))
			pys, pyu := sm.YearBounds(nd.Y - 1)
			representable := func(lo, hi int) bool { return lo >= sm.MinDay && hi <= sm.MaxDay && lo <= hi }
			for _, sc := range []struct {
				flag   string
				lo, hi int
			}{
				{"--today", n, n}, {"--yesterday", n - 1, n - 1}, {"--tomorrow", n + 1, n + 1},
				{"--this-week", ws, wu}, {"--last-week", ws - 7, ws - 1}, {"--thisweek", ws, wu},
				{"--this-month", ms, mu}, {"--last-month", pms, pmu}, {"--lastmonth", pms, pmu},
				{"--this-quarter", qs, qu}, {"--last-quarter", pqs, pqu},
				{"--this-year", ys, yu}, {"--last-year", pys, pyu}, {"--lastyear", pys, pyu},
			} {
				if !representable(sc.lo, sc.hi) || (nd.Y == 0 && strings.Contains(sc.flag, "last")) {
					continue // the period (or the previous one) is not fully representable: no verdict
				}
				out = append(out, c13Clause{kind: "date", args: []string{sc.flag}, recOK: between(sc.lo, sc.hi), now: now})
			}
		}
	}
	return out
}

// c13TagClauses derives the tag queries from the tags the file itself contains (bare name, other
// case, with value unquoted and quoted, a wrong value, pairs) plus absent ones.
func c13TagClauses(recs []sm.Record) []c13Clause {
	seen := map[string]bool{}
	var qs [][]string
	add := func(q ...string) {
		k := strings.Join(q, "\x00")
		if !seen[k] {
			seen[k] = true
			qs = append(qs, q)
		}
	}
	var names []string
	for _, r := range recs {
		var all []sm.Tag
		all = append(all, sm.ScanSummaryTags(r.Summary)...)
		for _, e := range r.Entries {
			all = append(all, sm.ScanSummaryTags(e.Summary)...)
		}
		for _, t := range all {
			add(t.Name)
			add("#" + strings.ToUpper(t.Name))
			names = append(names, t.Name)
			if t.Value != "" {
				if !strings.ContainsAny(t.Value, " \"'") {
					add(t.Name + "=" + t.Value)
					add(t.Name + "='" + t.Value + "'")
					add(strings.ToUpper(t.Name) + "=" + strings.ToUpper(t.Value))
				} else if !strings.Contains(t.Value, "\"") {
					add(t.Name + "=\"" + t.Value + "\"")
				}
				add(t.Name + "=wrong")
			}
		}
	}
	for i := 0; i+1 < len(names) && i < 6; i++ {
		if names[i] != names[i+1] {
			add(names[i], names[i+1])
		}
	}
	// the same tag asked for twice, in spellings that denote the same tag (a list of queried tags is not a set)
	for i := 0; i < len(names) && i < 3; i++ {
		add(names[i], "#"+strings.ToUpper(names[i]))
		add(names[i], names[i], names[i])
	}
	add("nope")
	add("nope", "a")
	var out []c13Clause
	for _, q := range qs {
		var tags []sm.Tag
		var args []string
		ok := true
		for _, t := range q {
			rt, okq := refQuery(t)
			if !okq {
				ok = false
			}
			tags = append(tags, rt)
			args = append(args, "--tag="+t)
		}
		if ok {
			out = append(out, c13Clause{kind: "tag", args: args, recTags: tags})
		}
	}
	return out
}

func c13TypeClauses() []c13Clause {
	mk := func(name string, f func(e sm.Entry) bool) c13Clause {
		return c13Clause{kind: "type", args: []string{"--entry-type", name}, entryOK: func(_ sm.Record, e sm.Entry) bool { return f(e) }}
	}
	return []c13Clause{
		mk("range", func(e sm.Entry) bool { return e.Kind == sm.KRange }),
		mk("open-range", func(e sm.Entry) bool { return e.Kind == sm.KOpenRange }),
		mk("duration", func(e sm.Entry) bool { return e.Kind == sm.KDuration }),
		mk("duration-positive", func(e sm.Entry) bool { return e.Kind == sm.KDuration && e.Dur.Mins >= 0 }),
		mk("duration-negative", func(e sm.Entry) bool { return e.Kind == sm.KDuration && e.Dur.Mins < 0 }),
		mk("OPEN_RANGE", func(e sm.Entry) bool { return e.Kind == sm.KOpenRange }),
	}
}

// c13Apply computes the expected selection.
func c13Apply(recs []sm.Record, clauses []c13Clause) []sm.Record {
	var out []sm.Record
	for _, r := range recs {
		keep := true
		rr := r
		for _, cl := range clauses {
			switch cl.kind {
			case "date":
				if !cl.recOK(r) {
					keep = false
				}
			case "tag":
				rt := sm.ScanSummaryTags(rr.Summary)
				all := true
				for _, q := range cl.recTags {
					if !sm.Matches(rt, q) {
						all = false
					}
				}
				if all {
					continue // the whole record matches
				}
				var es []sm.Entry
				for _, e := range rr.Entries {
					et := append(append([]sm.Tag{}, rt...), sm.ScanSummaryTags(e.Summary)...)
					ok := true
					for _, q := range cl.recTags {
						if !sm.Matches(et, q) {
							ok = false
						}
					}
					if ok {
						es = append(es, e)
					}
				}
				if len(es) == 0 {
					keep = false
				}
				rr.Entries = es
			case "type":
				var es []sm.Entry
				for _, e := range rr.Entries {
					if cl.entryOK(rr, e) {
						es = append(es, e)
					}
				}
				if len(es) == 0 {
					keep = false
				}
				rr.Entries = es
			}
		}
		if keep {
			out = append(out, rr)
		}
	}
	return out
}

type c13Case struct {
	File int      `json:"file"`
	Args []string `json:"args"`
	Now  [3]int   `json:"now"`
}

func c13Combos(file int) [][]c13Clause {
	ref := sm.Parse(c13Files[file])
	if ref.Verdict != sm.Valid {
		harnessFatal("C13 base file %d is not valid: %s line %d", file, ref.Rule, ref.Line)
	}
	dates := c13DateClauses(ref.Records)
	tags := c13TagClauses(ref.Records)
	types := c13TypeClauses()
	var out [][]c13Clause
	for _, d := range dates {
		out = append(out, []c13Clause{d})
	}
	for _, t := range tags {
		out = append(out, []c13Clause{t})
	}
	for _, t := range types {
		out = append(out, []c13Clause{t})
	}
	// pairwise and triple combinations: date x tag x type (date clauses thinned to every 9th)
	for i, d := range dates {
		if i%9 != 0 {
			continue
		}
		for _, t := range tags {
			out = append(out, []c13Clause{d, t})
		}
		for _, ty := range types {
			out = append(out, []c13Clause{d, ty})
		}
	}
	for _, t := range tags {
		for _, ty := range types {
			out = append(out, []c13Clause{t, ty})
			for i, d := range dates {
				if i%41 == 0 {
					out = append(out, []c13Clause{d, t, ty})
				}
			}
		}
	}
	return out
}

var c13ComboCache = map[int][][]c13Clause{}

func c13Sizes(t fw.Tier) []int {
	var s []int
	for f := range c13Files {
		if c13ComboCache[f] == nil {
			c13ComboCache[f] = c13Combos(f)
		}
		s = append(s, len(c13ComboCache[f]))
	}
	s = append(s, 1<<13+1<<14)     // large-N sort family
	s = append(s, c13BulkCount(t)) // enumerated documents x query matrix
	s = append(s, c13TZCount())    // relative shortcuts under wall clocks in zones with daylight-saving transitions
	return s
}

func init() {
	fw.Register(&fw.Check{
		ID:    "C13",
		Title: "Filters and sorting select exactly the matching data and never alter it",
		Rule: "8 base files (<=4 records; calendar edges, duplicate and unsorted dates, tags at record and entry level with and without values, mixed case, every entry kind) x clauses: " +
			"--date/--since/--until/--after/--before for every record date +-1 and thinned pairs, --period for every year/month/quarter/ISO week containing or adjacent to a record date, " +
			"all 14 relative shortcuts under clocks at every record date + {0,+-1,+-7,+-31,92,366} days, tag queries derived from the file's own tags (bare, other case, value unquoted/quoted/upper-cased/wrong, pairs) plus absent ones, 6 entry-type spellings; " +
			"all pairs tag x type, date x tag and date x type (dates thinned 1/9) and triples (1/41); each also with --sort asc and desc on a fixed stride; plus ALL 2^13+2^14 date assignments of 13/14 records over two dates for the sort itself. " +
			"plus BULK = every document of two records (dates {d, d+1} in the three orders same/ascending/descending; record summary in {none, #a, #b=1}; every sequence of <=2 (thorough: <=3 in the first record) of 6 entries with/without tags of all kinds) x a matrix of " + fmt.Sprint(len(c13BulkQueries())) + " queries (5 tag queries, 5 entry types, 4 date clauses, all tag x type pairs, date x tag x type triples, --sort), command struct on the real context. " +
			"plus TZ = the 11 relative shortcuts under wall clocks {0:00, 0:30, 12:00, 23:30, 23:59} on every day around the 2026 daylight-saving transitions of Europe/Berlin and America/New_York, in those zones, UTC, UTC+14 and UTC-11 (the calendar day is the clock's LOCAL day; a day is not always 24 hours long). " +
			"A case = (file, flags, clock); distinct by that triple.",
		Assumptions: []string{
			"independent predicate on the reference denotation (specmodel parser, tag scanner, calendar); selection read back from `klog json` through klog.Run (real flag decoding) and compared field by field (C20's comparison)",
			"one lower and one upper date bound at a time (klog documents override, not intersection, between e.g. --since and --after); `0m` counts as duration-positive (don't-care either way is not needed: the files avoid it for negative)",
			"order among records of equal date under --sort is a don't-care",
		},
		Units: func(t fw.Tier) int { return len(planSpans(c13Sizes(t), 250)) },
		RunUnit: func(c *fw.Ctx, unit int) {
			sp := planSpans(c13Sizes(c.Tier), 250)[unit]
			for i := sp.lo; i < sp.hi; i++ {
				if sp.fam == len(c13Files) {
					c13SortN(c, i)
					continue
				}
				if sp.fam == len(c13Files)+1 {
					c13Bulk(c, i)
					continue
				}
				if sp.fam == len(c13Files)+2 {
					c13TZ(c, i)
					continue
				}
				c13Run(c, sp.fam, c13ComboCache[sp.fam][i], i)
			}
		},
		Replay: func(c *fw.Ctx, raw json.RawMessage) {
			var cs c13Case
			if json.Unmarshal(raw, &cs) != nil {
				return
			}
			if cs.File == -2 {
				c13Bulk(c, cs.Now[0])
				return
			}
			if cs.File == -3 {
				c13TZ(c, cs.Now[0])
				return
			}
			if cs.File < 0 {
				c13SortN(c, cs.Now[0])
				return
			}
			c13Sizes(c.Tier)
			for i, combo := range c13ComboCache[cs.File] {
				var args []string
				now := [3]int{}
				for _, cl := range combo {
					args = append(args, cl.args...)
					if cl.now != [3]int{} {
						now = cl.now
					}
				}
				if fmt.Sprint(args) == fmt.Sprint(cs.Args) && now == cs.Now {
					c13Run(c, cs.File, combo, i)
					return
				}
			}
		},
	})
}

func c13Run(c *fw.Ctx, file int, combo []c13Clause, idx int) {
	text := c13Files[file]
	ref := sm.Parse(text)
	var args []string
	now := [3]int{}
	for _, cl := range combo {
		args = append(args, cl.args...)
		if cl.now != [3]int{} {
			now = cl.now
		}
	}
	o := clidrv.Opts{Now: fixedNow}
	if now != [3]int{} {
		o.Now = dateAt(now[0], now[1], now[2], 10, 30)
	}
	cs := c13Case{file, args, now}
	want := c13Apply(ref.Records, combo)
	dir := fw.Scratch()
	home := clidrv.Home("home")
	path := clidrv.WriteFile(dir, "c13.klg", text)
	sorts := [][]string{nil}
	if idx%4 == 0 {
		sorts = append(sorts, []string{"--sort", "asc"}, []string{"--sort", "desc"})
	}
	if idx%4 == 2 {
		sorts = append(sorts, []string{"--sort", "ASC"}, []string{"--sort", "DESC"}) // the documented upper-case spellings
	}
	for _, srt := range sorts {
		c.Eval(1)
		full := append(append([]string{"json"}, args...), srt...)
		c.Nontrivial(fw.HashMix(fw.HashString(strings.Join(full, "\x00")), uint64(file*1000003+now[0]*372+now[1]*31+now[2])))
		r := clidrv.Run(home, o, append(full, path)...)
		if r.Panicked {
			c.Violation("panic:"+fw.PanicSite(r.Stack), cs, fmt.Sprintf("`klog %s` panicked: %v\n%s", strings.Join(full, " "), r.PanicVal, r.Stack))
			return
		}
		if r.Code != 0 {
			c.Violation("filter-failed", cs, fmt.Sprintf("`klog %s` failed: exit %d %s", strings.Join(full, " "), r.Code, r.Err))
			return
		}
		exp := expectFromRef(want)
		out := strings.TrimSuffix(r.Stdout, "\n")
		var why string
		if srt == nil {
			why = c20CheckRecords(out, exp)
		} else {
			asc := strings.ToLower(srt[1]) == "asc"
			sort.SliceStable(exp, func(i, j int) bool {
				a, b := strings.ReplaceAll(exp[i].Date, "/", "-"), strings.ReplaceAll(exp[j].Date, "/", "-")
				if asc {
					return a < b
				}
				return a > b
			})
			why = c20CheckSorted(out, exp)
		}
		if why != "" {
			c.Violation("selection", cs, fmt.Sprintf("`klog %s` (clock %v): %s\nexpected %d records: %s\noutput: %s", strings.Join(full, " "), o.Now.Format("2006-01-02"), why, len(want), canonRef(want), truncateStr(out, 1200)))
			return
		}
		// the same selection through print: dates of the printed records, in order
		if srt == nil && idx%8 == 0 {
			pr := clidrv.Run(home, o, append(append([]string{"print", "--no-style", "--no-warn"}, args...), path)...)
			pref := sm.Parse(strings.TrimPrefix(pr.Stdout, "\n"))
			if pr.Code != 0 || pref.Verdict != sm.Valid || canonRef(maskIrregular(pref.Records)) != canonRef(maskIrregular(want)) {
				if !(len(want) == 0 && strings.TrimSpace(pr.Stdout) == "") {
					c.Violation("selection-print", cs, fmt.Sprintf("`klog print %s` shows\n%s\nexpected\n%s", strings.Join(args, " "), pr.Stdout, canonRef(want)))
					return
				}
			}
		}
	}
	c.Sample(func() any { return cs })
	if len(want) == 0 {
		c.Outcome("selects-nothing")
	} else if len(want) == len(ref.Records) && canonRef(want) == canonRef(ref.Records) {
		c.Outcome("selects-everything")
	} else {
		c.Outcome("selects-part")
	}
}

// c13SortN: every assignment of two dates to 13 (i < 2^13) or 14 records.
func c13SortN(c *fw.Ctx, i int) {
	n := 13
	bits := i
	if i >= 1<<13 {
		n = 14
		bits = i - 1<<13
	}
	d0, _ := klog.NewDate(2021, 5, 1)
	d1, _ := klog.NewDate(2021, 5, 2)
	var rs []klog.Record
	for k := 0; k < n; k++ {
		d := d0
		if bits>>uint(k)&1 == 1 {
			d = d1
		}
		r := klog.NewRecord(d)
		r.AddDuration(klog.NewDuration(0, k+1), nil)
		rs = append(rs, r)
	}
	c.Eval(1)
	c.Nontrivial(uint64(i) + 1<<50)
	cs := c13Case{File: -1, Now: [3]int{i, 0, 0}}
	for _, asc := range []bool{true, false} {
		var out []klog.Record
		if p, v, st := tryRun(func() { out = service.Sort(rs, asc) }); p {
			c.Violation("panic:sort:"+fw.PanicSite(st), cs, fmt.Sprintf("Sort panicked: %v\n%s", v, st))
			return
		}
		if len(out) != n {
			c.Violation("sort-length", cs, fmt.Sprintf("Sort returned %d of %d records", len(out), n))
			return
		}
		seen := map[int]bool{}
		for k, r := range out {
			id := r.Entries()[0].Duration().InMinutes()
			if seen[id] {
				c.Violation("sort-not-permutation", cs, fmt.Sprintf("record %d appears twice after sorting", id))
				return
			}
			seen[id] = true
			if k > 0 {
				prev, cur := out[k-1].Date(), r.Date()
				okOrder := cur.IsAfterOrEqual(prev)
				if !asc {
					okOrder = prev.IsAfterOrEqual(cur)
				}
				if !okOrder {
					c.Violation("sort-order", cs, fmt.Sprintf("sorted output (asc=%v) is not monotone at position %d: %s after %s", asc, k, cur.ToString(), prev.ToString()))
					return
				}
			}
		}
		// the input must not be reordered
		for k, r := range rs {
			if r.Entries()[0].Duration().InMinutes() != k+1 {
				c.Violation("sort-mutates-input", cs, "Sort reordered its input slice")
				return
			}
		}
	}
	c.Outcome("sort-n")
}

// ---- BULK: enumerated two-record documents x a fixed query matrix (cli.Json struct on the real context)

var c13BulkEntries = []string{"1h", "1h #a", "-30m #b=1", "8:00 - 9:00 #a #b=2", "9:00 - ?", "2h #B"}
var c13BulkSummaries = []string{"", "#a\n", "note #b=1\n"}

// records with every sequence of <= maxLen entries (2, thorough: 3 for the first record)
func c13BulkRecCount(maxLen int) int {
	ne := len(c13BulkEntries)
	n, p := 0, 1
	for l := 0; l <= maxLen; l++ {
		n += p
		p *= ne
	}
	return len(c13BulkSummaries) * n
}

func c13BulkFirstLen(t fw.Tier) int {
	if t == fw.Thorough {
		return 3
	}
	return 2
}

func c13BulkCount(t fw.Tier) int { return c13BulkRecCount(c13BulkFirstLen(t)) * c13BulkRecCount(2) * 3 }

func c13BulkRec(date string, k int) string {
	ne := len(c13BulkEntries)
	out := date + "\n" + c13BulkSummaries[k%len(c13BulkSummaries)]
	k /= len(c13BulkSummaries)
	l, p := 0, 1
	for k >= p { // sequences are numbered shortest first
		k -= p
		p *= ne
		l++
	}
	for j := 0; j < l; j++ {
		out += "    " + c13BulkEntries[k%ne] + "\n"
		k /= ne
	}
	return out
}

func c13BulkDoc(t fw.Tier, i int) string {
	n := c13BulkRecCount(c13BulkFirstLen(t))
	order := i % 3
	i /= 3
	d1, d2 := "2021-03-31", "2021-04-01"
	switch order {
	case 1:
		d2 = d1 // same date twice
	case 2:
		d1, d2 = d2, d1 // descending
	}
	return c13BulkRec(d1, i%n) + "\n" + c13BulkRec(d2, i/n)
}

type c13BulkQuery struct {
	name    string
	clauses []c13Clause
	filter  cliutil.FilterArgs
	sort    string
}

var c13BulkQueriesCache []c13BulkQuery

func c13BulkQueries() []c13BulkQuery {
	if c13BulkQueriesCache != nil {
		return c13BulkQueriesCache
	}
	type tq struct {
		arg string
		ref []sm.Tag
	}
	tags := []tq{{"a", []sm.Tag{{Name: "a"}}}, {"b", []sm.Tag{{Name: "b"}}}, {"b=1", []sm.Tag{{Name: "b", Value: "1"}}}, {"B=2", []sm.Tag{{Name: "b", Value: "2"}}}, {"a+b", []sm.Tag{{Name: "a"}, {Name: "b"}}}}
	type yq struct {
		name string
		et   service.EntryType
		ok   func(e sm.Entry) bool
	}
	types := []yq{
		{"range", service.ENTRY_TYPE_RANGE, func(e sm.Entry) bool { return e.Kind == sm.KRange }},
		{"open-range", service.ENTRY_TYPE_OPEN_RANGE, func(e sm.Entry) bool { return e.Kind == sm.KOpenRange }},
		{"duration", service.ENTRY_TYPE_DURATION, func(e sm.Entry) bool { return e.Kind == sm.KDuration }},
		{"duration-positive", service.ENTRY_TYPE_POSITIVE_DURATION, func(e sm.Entry) bool { return e.Kind == sm.KDuration && e.Dur.Mins >= 0 }},
		{"duration-negative", service.ENTRY_TYPE_NEGATIVE_DURATION, func(e sm.Entry) bool { return e.Kind == sm.KDuration && e.Dur.Mins < 0 }},
	}
	d1 := sm.DayNumber(sm.Date{Y: 2021, M: 3, D: 31})
	k1, _ := klog.NewDate(2021, 3, 31)
	k2, _ := klog.NewDate(2021, 4, 1)
	per, perr := period.NewPeriodFromPatternString("2021-04")
	if perr != nil {
		harnessFatal("C13 bulk: period 2021-04 rejected: %v", perr)
	}
	type dq struct {
		name string
		ok   func(sm.Record) bool
		set  func(*cliutil.FilterArgs)
	}
	inf := 1 << 30
	dates := []dq{
		{"--date 2021-03-31", between(d1, d1), func(f *cliutil.FilterArgs) { f.Date = k1 }},
		{"--since 2021-04-01", between(d1+1, inf), func(f *cliutil.FilterArgs) { f.Since = k2 }},
		{"--before 2021-04-01", between(-inf, d1), func(f *cliutil.FilterArgs) { f.Before = k2 }},
		{"--period 2021-04", between(d1+1, d1+30), func(f *cliutil.FilterArgs) { f.Period = per }},
	}
	mkTag := func(t tq) (c13Clause, []klog.Tag) {
		var kts []klog.Tag
		for _, part := range strings.Split(t.arg, "+") {
			kt, err := klog.NewTagFromString(part)
			if err != nil {
				harnessFatal("C13 bulk: tag %q rejected", part)
			}
			kts = append(kts, kt)
		}
		return c13Clause{kind: "tag", recTags: t.ref}, kts
	}
	var qs []c13BulkQuery
	for _, t := range tags {
		cl, kts := mkTag(t)
		qs = append(qs, c13BulkQuery{name: "--tag " + t.arg, clauses: []c13Clause{cl}, filter: cliutil.FilterArgs{Tags: kts}})
		for _, y := range types {
			y := y
			ycl := c13Clause{kind: "type", entryOK: func(_ sm.Record, e sm.Entry) bool { return y.ok(e) }}
			qs = append(qs, c13BulkQuery{name: "--tag " + t.arg + " --entry-type " + y.name, clauses: []c13Clause{cl, ycl}, filter: cliutil.FilterArgs{Tags: kts, EntryType: y.et}})
		}
	}
	for _, y := range types {
		y := y
		ycl := c13Clause{kind: "type", entryOK: func(_ sm.Record, e sm.Entry) bool { return y.ok(e) }}
		qs = append(qs, c13BulkQuery{name: "--entry-type " + y.name, clauses: []c13Clause{ycl}, filter: cliutil.FilterArgs{EntryType: y.et}})
	}
	for di, d := range dates {
		dcl := c13Clause{kind: "date", recOK: d.ok}
		f := cliutil.FilterArgs{}
		d.set(&f)
		qs = append(qs, c13BulkQuery{name: d.name, clauses: []c13Clause{dcl}, filter: f})
		// triples: this date clause x one tag x one type (rotating)
		for ti, t := range tags {
			y := types[(ti+di)%len(types)]
			cl, kts := mkTag(t)
			ycl := c13Clause{kind: "type", entryOK: func(_ sm.Record, e sm.Entry) bool { return y.ok(e) }}
			f3 := cliutil.FilterArgs{Tags: kts, EntryType: y.et}
			d.set(&f3)
			qs = append(qs, c13BulkQuery{name: d.name + " --tag " + t.arg + " --entry-type " + y.name, clauses: []c13Clause{dcl, cl, ycl}, filter: f3})
		}
	}
	qs = append(qs, c13BulkQuery{name: "--sort asc", sort: "asc"}, c13BulkQuery{name: "--sort desc", sort: "desc"},
		c13BulkQuery{name: "--tag a --sort desc", clauses: []c13Clause{{kind: "tag", recTags: []sm.Tag{{Name: "a"}}}}, filter: cliutil.FilterArgs{Tags: []klog.Tag{klog.NewTagOrPanic("a", "")}}, sort: "desc"})
	c13BulkQueriesCache = qs
	return qs
}

func c13Bulk(c *fw.Ctx, i int) {
	text := c13BulkDoc(c.Tier, i)
	ref := sm.Parse(text)
	if ref.Verdict != sm.Valid {
		c.Outcome("bulk-invalid-doc") // two open ranges in one record
		return
	}
	dir := fw.Scratch()
	home := clidrv.Home("home")
	path := clidrv.WriteFile(dir, "c13b.klg", text)
	in := fileArgs(path)
	for qi, q := range c13BulkQueries() {
		c.Eval(1)
		c.Nontrivial(fw.HashMix(fw.HashString(q.name), uint64(i)+1<<40))
		cs := c13Case{File: -2, Args: []string{q.name, text}, Now: [3]int{i, qi, 0}}
		want := c13Apply(ref.Records, q.clauses)
		r := clidrv.Exec(home, clidrv.Opts{Now: fixedNow}, &cli.Json{FilterArgs: q.filter, SortArgs: cliutil.SortArgs{Sort: q.sort}, InputFilesArgs: in})
		if r.Panicked {
			c.Violation("panic:"+fw.PanicSite(r.Stack), cs, fmt.Sprintf("`klog json %s` panicked: %v\n%s", q.name, r.PanicVal, r.Stack))
			return
		}
		if r.Code != 0 {
			c.Violation("filter-failed", cs, fmt.Sprintf("`klog json %s` failed: exit %d %s", q.name, r.Code, r.Err))
			return
		}
		exp := expectFromRef(want)
		out := strings.TrimSuffix(r.Stdout, "\n")
		var why string
		if q.sort == "" {
			why = c20CheckRecords(out, exp)
		} else {
			asc := q.sort == "asc"
			sort.SliceStable(exp, func(a, b int) bool {
				if asc {
					return exp[a].Date < exp[b].Date
				}
				return exp[a].Date > exp[b].Date
			})
			why = c20CheckSorted(out, exp)
		}
		if why != "" {
			c.Violation("selection", cs, fmt.Sprintf("`klog json %s` on\n%s\n%s\nexpected %d records: %s\noutput: %s", q.name, text, why, len(want), canonRef(want), truncateStr(out, 1200)))
			return
		}
		if len(want) == 0 {
			c.Count("bulk_selects_nothing", 1)
		} else if canonRef(want) == canonRef(ref.Records) {
			c.Count("bulk_selects_everything", 1)
		} else {
			c.Count("bulk_selects_part", 1)
		}
	}
	c.Outcome("bulk")
}

// ---- TZ: relative shortcuts under local wall clocks, around daylight-saving transitions

var c13TZZones = []string{"UTC", "Europe/Berlin", "America/New_York", "Pacific/Kiritimati", "Pacific/Pago_Pago"}
var c13TZTimes = [][2]int{{0, 0}, {0, 30}, {12, 0}, {23, 30}, {23, 59}}
var c13TZShortcuts = []string{"today", "yesterday", "tomorrow", "this-week", "last-week", "this-month", "last-month", "this-quarter", "last-quarter", "this-year", "last-year"}

// days around 2026-03-08 / 2026-11-01 (US) and 2026-03-29 / 2026-10-25 (EU)
func c13TZDays() []int {
	var out []int
	for _, c := range [][3]int{{2026, 3, 8}, {2026, 3, 29}, {2026, 10, 25}, {2026, 11, 1}} {
		n := sm.DayNumber(sm.Date{Y: c[0], M: c[1], D: c[2]})
		for d := n - 2; d <= n+2; d++ {
			out = append(out, d)
		}
	}
	return out
}

func c13TZCount() int {
	return len(c13TZDays()) * len(c13TZZones) * len(c13TZTimes) * len(c13TZShortcuts)
}

func c13TZ(c *fw.Ctx, i int) {
	days := c13TZDays()
	d := docgen.Radix(i, len(days), len(c13TZZones), len(c13TZTimes), len(c13TZShortcuts))
	n := days[d[0]]
	loc, err := gotime.LoadLocation(c13TZZones[d[1]])
	if err != nil {
		harnessFatal("C13 TZ: zone %s not available: %v", c13TZZones[d[1]], err)
	}
	tm := c13TZTimes[d[2]]
	sc := c13TZShortcuts[d[3]]
	// the file: one record per day in the window (+-40 days covers last-month; the rest by the bounds check)
	text := ""
	for _, day := range days {
		text += lit(day) + "\n    1h\n\n"
	}
	text += lit(n-35) + "\n    2h\n\n" + lit(n-100) + "\n    3h\n\n" + lit(n-370) + "\n    4h\n"
	ref := sm.Parse(text)
	if ref.Verdict != sm.Valid {
		harnessFatal("C13 TZ document invalid")
	}
	nd := sm.FromDayNumber(n)
	now := gotime.Date(nd.Y, gotime.Month(nd.M), nd.D, tm[0], tm[1], 0, 0, loc)
	if y, m, dd := now.Date(); y != nd.Y || int(m) != nd.M || dd != nd.D {
		harnessFatal("C13 TZ: %v is not on local day %v", now, nd)
	}
	ws, wu := sm.WeekBounds(n)
	ms, mu := sm.MonthBounds(nd.Y, nd.M)
	qs, qu := sm.QuarterBounds(nd.Y, sm.Quarter(nd.M))
	ys, yu := sm.YearBounds(nd.Y)
	pm := sm.FromDayNumber(ms - 1)
	pms, pmu := sm.MonthBounds(pm.Y, pm.M)
	pq := sm.FromDayNumber(qs - 1)
	pqs, pqu := sm.QuarterBounds(pq.Y, sm.Quarter(pq.M))
	pys, pyu := sm.YearBounds(nd.Y - 1)
	var lo, hi int
	fa := cliutil.FilterArgs{}
	switch sc {
	case "today":
		lo, hi, fa.Today = n, n, true
	case "yesterday":
		lo, hi, fa.Yesterday = n-1, n-1, true
	case "tomorrow":
		lo, hi, fa.Tomorrow = n+1, n+1, true
	case "this-week":
		lo, hi, fa.ThisWeek = ws, wu, true
	case "last-week":
		lo, hi, fa.LastWeek = ws-7, ws-1, true
	case "this-month":
		lo, hi, fa.ThisMonth = ms, mu, true
	case "last-month":
		lo, hi, fa.LastMonth = pms, pmu, true
	case "this-quarter":
		lo, hi, fa.ThisQuarter = qs, qu, true
	case "last-quarter":
		lo, hi, fa.LastQuarter = pqs, pqu, true
	case "this-year":
		lo, hi, fa.ThisYear = ys, yu, true
	case "last-year":
		lo, hi, fa.LastYear = pys, pyu, true
	}
	want := c13Apply(ref.Records, []c13Clause{{kind: "date", recOK: between(lo, hi)}})
	c.Eval(1)
	c.Nontrivial(fw.HashMix(fw.HashString(sc+c13TZZones[d[1]]), uint64(i)+1<<41))
	cs := c13Case{File: -3, Args: []string{"--" + sc, now.Format("2006-01-02 15:04 MST -0700")}, Now: [3]int{i, 0, 0}}
	dir := fw.Scratch()
	path := clidrv.WriteFile(dir, "c13tz.klg", text)
	r := clidrv.Exec(clidrv.Home("home"), clidrv.Opts{Now: now}, &cli.Json{FilterArgs: fa, InputFilesArgs: fileArgs(path)})
	if r.Panicked || r.Code != 0 {
		c.Violation("filter-failed", cs, fmt.Sprintf("`klog json --%s` at %s failed: exit %d panic %v %s", sc, cs.Args[1], r.Code, r.PanicVal, r.Err))
		return
	}
	if why := c20CheckRecords(strings.TrimSuffix(r.Stdout, "\n"), expectFromRef(want)); why != "" {
		var got []string
		for _, w := range want {
			got = append(got, w.Date.String())
		}
		c.Violation("selection", cs, fmt.Sprintf("`klog json --%s` with the wall clock at %s: %s\nexpected the records dated %v\noutput: %s", sc, cs.Args[1], why, got, truncateStr(r.Stdout, 600)))
		return
	}
	c.Outcome("tz")
}
