//go:build verif

package checks

import (
	"encoding/json"
	"fmt"
	"sort"
	"strings"

	"github.com/jotaen/klog/klog"
	"github.com/jotaen/klog/klog/service"
	"github.com/jotaen/klog/klog/verifrt/vrt"

	"klogverif/clidrv"
	"klogverif/docgen"
	"klogverif/explore"
	"klogverif/fw"
	sm "klogverif/specmodel"
)

// C14 — tags are recognised, matched and totalled as the specification defines.

var c14Alphabet = []string{"a", "B", "ü", "1", "#", "=", "\"", "'", "_", "-", " ", ".", "中", "\uff12"} // U+FF12 FULLWIDTH DIGIT TWO: a Unicode decimal digit that is not one of the specification's digits 0-9
var c14Queries = []string{"a", "#A", "b", "B", "ü", "Ü", "a=1", "a='1'", "a=\"1\"", "a=B", "a=b", "1", "_", "-", "a-", "中", "a=", "b=ü", "a=\" \"", "a='a'", "aB", "#ab=1"}

// tag placements for the totals family
var c14Place = []string{"", "#a", "#A", "#a=1", "#a=2", "#a #a", "#b", "#a=1 #a=\"1\" #b=x", "#a1 #b=X #b=x"} // (#a1 vs #a=1: name+value must not be confused; #b=X vs #b=x: values are case-sensitive)

type c14Case struct {
	Fam  string `json:"fam"`
	I    int    `json:"i"`
	Text fw.Txt `json:"text"`
	Map  []int  `json:"map_choices,omitempty"`
}

// longer summaries than the exhaustive bound reaches: quoted values that contain the other quote character
var c14Hand = []string{
	"#s='5\"'", "#q=\"'tis\"", "#q='\"x\"'", "#q=\"'x'\"", "#q='\"'", "#q=\"'\"", "#q='a\"b' #r=\"c'd\"", "#q=\"it's\" and #r='say \"hi\"'",
	"#a='1' #a=\"1\" #a=1 #A='1\"'", "#tag=\"\" #tag='' #tag= #tag", "##a ###b=#c", "#a=\"x #b\" #c", "#a='x #b #c", "#ü-_=ü-_ #中=中",
}

func c14Space(tier fw.Tier) docgen.TokenSpace {
	k := 6
	if tier == fw.Thorough {
		k = 7
	}
	return docgen.TokenSpace{Alphabet: c14Alphabet, MaxLen: k}
}

func c14TotalsCount() int { return len(c14Place) * len(c14Place) * len(c14Place) * len(c14Place) * 2 }

func c14TotalsAt(i int) string {
	d := docgen.Radix(i, len(c14Place), len(c14Place), len(c14Place), len(c14Place), 2)
	sum := ""
	if c14Place[d[0]] != "" {
		sum = "Day " + c14Place[d[0]] + "\n"
	}
	vals := []string{"1h", "8:00 - 8:30", "-5m"}
	t := "2020-01-01\n" + sum
	for k := 0; k < 3; k++ {
		t += "    " + vals[k]
		if c14Place[d[1+k]] != "" {
			t += " did " + c14Place[d[1+k]]
		}
		t += "\n"
	}
	if d[4] == 1 {
		// a second record that repeats one placement at record level and uses a continuation line
		t += "\n2020-01-02\n" + c14Place[d[2]] + "x\n    2h\n        more " + c14Place[d[3]] + "\n    9:00-?\n"
		if c14Place[d[2]] == "" {
			t = strings.Replace(t, "\n2020-01-02\nx\n", "\n2020-01-02\nplain\n", 1)
		}
	}
	return t
}

func init() {
	fw.Register(&fw.Check{
		ID:    "C14",
		Title: "Tags are recognised, matched and totalled as the specification defines",
		Rule: "S = ALL strings of <=6 (quick) / 7 (thorough) symbols over {a, B, ü, 1, #, =, \", ', _, -, space, ., 中, U+FF12 (a Unicode digit that is not 0-9)} as record summary line, entry summary first line and continuation line " +
			"(through the summary constructors and through the real parser), each checked for the recognised tag list and against 22 tag queries; " +
			"T = totals: one or two records with 3(+2) entries and every combination of 9 tag placements {none, #a, #A, #a=1, #a=2, #a #a, #b, mixed, #a1 #b=X #b=x} at record level and on each entry (13122 documents), " +
			"under the canonical map order for all and under every map-iteration order within the deviation bound (DFS over the Merge / aggregation map ranges: at most 1 (quick) / 2 (thorough) non-canonical orders per execution, each of them any of the n! permutations) for every 16th. non-trivial = contains '#'; distinct by text hash.",
		Assumptions: []string{
			"specmodel.ScanTags (hand-written scanner for the spec's tag grammar) and per-entry set semantics for totals",
			"`##a` is read as text '#' followed by tag #a (the specification does not exclude it)",
			"totals observed through service.AggregateTotalsByTags for all and through `klog tags -v -c --decimal --no-style` and `klog json` for every 8th document of T",
		},
		Units: func(t fw.Tier) int {
			return len(planSpans([]int{c14Space(t).Count(), c14TotalsCount(), len(c14Hand)}, 50000))
		},
		RunUnit: func(c *fw.Ctx, unit int) {
			sp := planSpans([]int{c14Space(c.Tier).Count(), c14TotalsCount(), len(c14Hand)}, 50000)[unit]
			for i := sp.lo; i < sp.hi; i++ {
				if sp.fam == 0 {
					c14Summary(c, i, c14Space(c.Tier).At(i))
				} else if sp.fam == 2 {
					c14Summary(c, -1-i, c14Hand[i])
					c14Totals(c, -1-i, "2020-01-01\n"+c14Hand[i]+"\n    1h "+c14Hand[(i+1)%len(c14Hand)]+"\n    2h\n", nil, true)
				} else {
					c14Totals(c, i, c14TotalsAt(i), nil, i%16 == 0)
				}
			}
		},
		Replay: func(c *fw.Ctx, raw json.RawMessage) {
			var cs c14Case
			if json.Unmarshal(raw, &cs) != nil {
				return
			}
			if cs.Fam == "S" {
				c14Summary(c, cs.I, string(cs.Text))
			} else {
				c14Totals(c, cs.I, string(cs.Text), cs.Map, false)
			}
		},
	})
}

func refTagStrings(ts []sm.Tag) []string {
	out := make([]string, len(ts))
	for i, t := range ts {
		out[i] = t.Canonical()
	}
	return out
}

// refQuery parses a --tag argument the way the flag is documented (leading # optional).
func refQuery(q string) (sm.Tag, bool) {
	if !strings.HasPrefix(q, "#") {
		q = "#" + q
	}
	ts := sm.ScanTags(q)
	if len(ts) != 1 {
		return sm.Tag{}, false
	}
	// the whole argument must be the tag
	return ts[0], true
}

var c14KlogQueries []struct {
	q   string
	k   klog.Tag
	ref sm.Tag
}

func c14InitQueries() {
	if c14KlogQueries != nil {
		return
	}
	for _, q := range c14Queries {
		k, err := klog.NewTagFromString(q)
		r, ok := refQuery(q)
		if err != nil || !ok {
			continue
		}
		c14KlogQueries = append(c14KlogQueries, struct {
			q   string
			k   klog.Tag
			ref sm.Tag
		}{q, k, r})
	}
	if len(c14KlogQueries) < 15 {
		harnessFatal("only %d tag queries usable", len(c14KlogQueries))
	}
}

func c14CheckTagSet(where string, got *klog.TagSet, lines []string) string {
	want := sm.ScanSummaryTags(lines)
	if g, w := fmt.Sprintf("%q", got.ToStrings()), fmt.Sprintf("%q", refTagStrings(want)); g != w {
		return fmt.Sprintf("%s %q: recognised tags %s, the specification gives %s", where, lines, g, w)
	}
	if got.IsEmpty() != (len(want) == 0) {
		return fmt.Sprintf("%s %q: IsEmpty() = %v with %d tags", where, lines, got.IsEmpty(), len(want))
	}
	for _, q := range c14KlogQueries {
		if g, w := got.Contains(q.k), sm.Matches(want, q.ref); g != w {
			return fmt.Sprintf("%s %q: matches query %q = %v, expected %v", where, lines, q.q, g, w)
		}
	}
	return ""
}

func c14Summary(c *fw.Ctx, idx int, s string) {
	c14InitQueries()
	c.Eval(1)
	cs := c14Case{Fam: "S", I: idx, Text: fw.Txt(s)}
	if strings.Contains(s, "#") {
		c.NontrivialString(s)
		c.Sample(func() any { return cs })
	}
	bad := func(sig, detail string) { c.Violation(sig, cs, detail) }
	p, v, st := tryRun(func() {
		if rsum, err := klog.NewRecordSummary(s); err == nil {
			if why := c14CheckTagSet("record summary", rsum.Tags(), []string{s}); why != "" {
				bad("tags-record-summary", why)
				return
			}
		}
		if esum, err := klog.NewEntrySummary(s); err == nil {
			if why := c14CheckTagSet("entry summary", esum.Tags(), []string{s}); why != "" {
				bad("tags-entry-summary", why)
				return
			}
		}
		if esum, err := klog.NewEntrySummary("x #B=1", s); err == nil {
			if why := c14CheckTagSet("entry summary continuation", esum.Tags(), []string{"x #B=1", s}); why != "" {
				bad("tags-continuation", why)
				return
			}
		}
		// through the real parser, all three positions at once
		doc := "2020-01-01\n" + s + "\n    1h " + s + "\n        " + s + "\n"
		rs, _, errs := parseSerial(doc)
		if len(errs) == 0 && len(rs) == 1 && len(rs[0].Entries()) == 1 {
			ref := sm.Parse(doc)
			if ref.Verdict != sm.Valid || len(ref.Records) != 1 || len(ref.Records[0].Entries) != 1 {
				c.Outcome("parser-leg-dont-care")
				return
			}
			c.Outcome("parser-leg")
			if why := c14CheckTagSet("parsed record summary", rs[0].Summary().Tags(), ref.Records[0].Summary); why != "" {
				bad("tags-parsed-record", why)
				return
			}
			e := rs[0].Entries()[0]
			if why := c14CheckTagSet("parsed entry summary", e.Summary().Tags(), ref.Records[0].Entries[0].Summary); why != "" {
				bad("tags-parsed-entry", why)
			}
		} else {
			c.Outcome("parser-leg-rejected")
		}
	})
	if p {
		bad("panic:tags:"+fw.PanicSite(st), fmt.Sprintf("panicked: %v\n%s", v, st))
	}
}

type tagTotal struct {
	Key   string
	Total int
	Count int
}

// refTagTotals: for every tag (and tag=value) the sum of the durations of the entries that carry it
// (record-level tags apply to every entry; each entry counts at most once per tag).
func refTagTotals(rs []sm.Record) []tagTotal {
	acc := map[string]*tagTotal{}
	for _, r := range rs {
		rt := sm.ScanSummaryTags(r.Summary)
		for _, e := range r.Entries {
			all := append(append([]sm.Tag{}, rt...), sm.ScanSummaryTags(e.Summary)...)
			seen := map[string]bool{}
			for _, t := range all {
				for _, key := range []string{t.Name + "=", t.Name + "=" + t.Value} {
					if seen[key] {
						continue
					}
					seen[key] = true
					if acc[key] == nil {
						acc[key] = &tagTotal{Key: key}
					}
					acc[key].Total += e.Minutes()
					acc[key].Count++
				}
			}
		}
	}
	var out []tagTotal
	for _, t := range acc {
		out = append(out, *t)
	}
	sort.Slice(out, func(i, j int) bool { return out[i].Key < out[j].Key })
	return out
}

func c14Totals(c *fw.Ctx, idx int, text string, mapChoices []int, exploreOrders bool) {
	c.Eval(1)
	cs := c14Case{Fam: "T", I: idx, Text: fw.Txt(text)}
	ref := sm.Parse(text)
	if ref.Verdict != sm.Valid {
		harnessFatal("C14 totals document not valid for the reference: %q (%s line %d)", text, ref.Rule, ref.Line)
	}
	c.NontrivialString(text)
	c.Sample(func() any { return cs })
	want := refTagTotals(ref.Records)
	observe := func() (string, string) {
		rs, _, errs := parseSerial(text)
		if len(errs) > 0 {
			return "", "rejected by klog"
		}
		var got []tagTotal
		for _, s := range service.AggregateTotalsByTags(rs...) {
			got = append(got, tagTotal{s.Tag.Name() + "=" + s.Tag.Value(), s.Total.InMinutes(), s.Count})
		}
		return fmt.Sprint(got), ""
	}
	check := func(cs c14Case) bool {
		var got, why string
		if p, v, st := tryRun(func() { got, why = observe() }); p {
			c.Violation("panic:tag-totals:"+fw.PanicSite(st), cs, fmt.Sprintf("panicked: %v\n%s", v, st))
			return false
		}
		if why != "" {
			c.Outcome("skipped-klog-rejects")
			return false
		}
		if got != fmt.Sprint(want) {
			c.Violation("tag-totals", cs, fmt.Sprintf("tag totals (key, minutes, entries) are %s, the specification gives %v", got, want))
			return false
		}
		return true
	}
	if mapChoices != nil {
		rec := &explore.Recorder{Prefix: mapChoices}
		vrt.SetMapChooser(rec.Choose)
		cs.Map = mapChoices
		check(cs)
		vrt.SetMapChooser(nil)
		return
	}
	if !check(cs) {
		return
	}
	c.Outcome("totals-ok")
	if exploreOrders {
		bound := 1
		if c.Tier == fw.Thorough {
			bound = 2
		}
		st, err := explore.DFS(bound, 300000, func(rec *explore.Recorder) bool {
			vrt.SetMapChooser(rec.Choose)
			defer vrt.SetMapChooser(nil)
			c.Count("map_order_executions", 1)
			cs2 := cs
			cs2.Map = rec.Choices()
			return check(cs2)
		})
		if err != nil {
			harnessFatal("map-order exploration: %v", err)
		}
		c.Max("map_choice_points", int64(st.MaxPoints))
		if st.Capped {
			c.Cap("map-order exploration capped at 300000 executions for one document")
		}
	}
	if idx >= 0 && idx%8 == 0 {
		c14CLI(c, cs, text, ref.Records, want)
	}
}

// c14CLI reads `klog tags -v -c --decimal --no-style` and the tag arrays of `klog json` back.
func c14CLI(c *fw.Ctx, cs c14Case, text string, recs []sm.Record, want []tagTotal) {
	dir := fw.Scratch()
	path := clidrv.WriteFile(dir, "c14.klg", text)
	home := clidrv.Home("home")
	// with an open range in a record: `klog tags --now` at noon of that record's day credits the closed range's time
	// to the tags that apply to it (the aggregation must see the records AFTER they have been closed)
	for _, rec := range recs {
		if rec.OpenRange() < 0 {
			continue
		}
		day := sm.DayNumber(rec.Date.Date)
		closed, ok, _ := sm.CloseAt(recs, day, 12*60)
		if !ok {
			break
		}
		rn := clidrv.Run(home, clidrv.Opts{Now: dateAt(rec.Date.Y, rec.Date.M, rec.Date.D, 12, 0)}, "tags", "-v", "-c", "--decimal", "--no-style", "--no-warn", "--now", path)
		var gotNow []tagTotal
		cur := ""
		for _, l := range strings.Split(strings.TrimRight(rn.Stdout, "\n"), "\n") {
			f := strings.Fields(l)
			if len(f) != 3 {
				continue
			}
			var total, count int
			fmt.Sscanf(f[1], "%d", &total)
			fmt.Sscanf(f[2], "(%d)", &count)
			if strings.HasPrefix(l, "#") {
				cur = strings.TrimPrefix(f[0], "#")
				gotNow = append(gotNow, tagTotal{cur + "=", total, count})
			} else {
				gotNow = append(gotNow, tagTotal{cur + "=" + f[0], total, count})
			}
		}
		wantNow := refTagTotals(closed)
		if rn.Panicked || rn.Code != 0 || fmt.Sprint(gotNow) != fmt.Sprint(wantNow) {
			if !(len(wantNow) == 0 && strings.TrimSpace(rn.Stdout) == "" && rn.Code == 0) {
				c.Violation("cli-tags-now", cs, fmt.Sprintf("`klog tags -v -c --now` at %s 12:00 (exit %d, panic %v) shows %v, expected %v\n%s", rec.Date.String(), rn.Code, rn.PanicVal, gotNow, wantNow, rn.Stdout))
				return
			}
		}
		break
	}
	r := clidrv.Run(home, clidrv.Opts{Now: fixedNow}, "tags", "-v", "-c", "--decimal", "--no-style", "--no-warn", path)
	if r.Panicked || r.Code != 0 {
		c.Violation("cli-tags", cs, fmt.Sprintf("`klog tags` failed: exit %d panic %v %s", r.Code, r.PanicVal, r.Err))
		return
	}
	// rows: "#name <total> <blank> (n)" or " value <blank> <total> (n)"; values of this family contain no blanks
	var got []tagTotal
	cur := ""
	for _, l := range strings.Split(strings.TrimRight(r.Stdout, "\n"), "\n") {
		if strings.TrimSpace(r.Stdout) == "" {
			break
		}
		f := strings.Fields(l)
		if len(f) != 3 {
			c.Violation("cli-tags", cs, fmt.Sprintf("cannot read row %q of\n%s", l, r.Stdout))
			return
		}
		var total, count int
		fmt.Sscanf(f[1], "%d", &total)
		fmt.Sscanf(f[2], "(%d)", &count)
		if strings.HasPrefix(l, "#") {
			cur = strings.TrimPrefix(f[0], "#")
			got = append(got, tagTotal{cur + "=", total, count})
		} else {
			got = append(got, tagTotal{cur + "=" + f[0], total, count})
		}
	}
	if len(want) == 0 && strings.TrimSpace(r.Stdout) == "" {
		got = nil
	}
	if fmt.Sprint(got) != fmt.Sprint(want) {
		c.Violation("cli-tags", cs, fmt.Sprintf("`klog tags -v -c` shows %v, expected %v\n%s", got, want, r.Stdout))
		return
	}
	// json: tags per record and per entry, sorted, in canonical spelling
	r = clidrv.Run(home, clidrv.Opts{Now: fixedNow}, "json", path)
	var env struct {
		Records []struct {
			Tags    []string `json:"tags"`
			Entries []struct {
				Tags []string `json:"tags"`
			} `json:"entries"`
		} `json:"records"`
	}
	if r.Panicked || r.Code != 0 || json.Unmarshal([]byte(r.Stdout), &env) != nil || len(env.Records) != len(recs) {
		c.Violation("cli-json-tags", cs, fmt.Sprintf("`klog json` failed: exit %d panic %v %s", r.Code, r.PanicVal, r.Err))
		return
	}
	sorted := func(ts []sm.Tag) []string {
		s := refTagStrings(ts)
		sort.Strings(s)
		return s
	}
	for i, jr := range env.Records {
		if fmt.Sprintf("%q", jr.Tags) != fmt.Sprintf("%q", sorted(sm.ScanSummaryTags(recs[i].Summary))) {
			c.Violation("cli-json-tags", cs, fmt.Sprintf("json record %d tags %q, expected %q", i, jr.Tags, sorted(sm.ScanSummaryTags(recs[i].Summary))))
			return
		}
		for j, je := range jr.Entries {
			if fmt.Sprintf("%q", je.Tags) != fmt.Sprintf("%q", sorted(sm.ScanSummaryTags(recs[i].Entries[j].Summary))) {
				c.Violation("cli-json-tags", cs, fmt.Sprintf("json record %d entry %d tags %q, expected %q", i, j, je.Tags, sorted(sm.ScanSummaryTags(recs[i].Entries[j].Summary))))
				return
			}
		}
	}
	// matching through the real command line (flag decoding included): names case-insensitively, values case-sensitively,
	// quoted = unquoted, a tag asked for twice (in two spellings) is the same query
	for _, q := range [][]string{{"a"}, {"A"}, {"a", "#A"}, {"a=1"}, {"a=1", "a=\"1\"", "A='1'"}, {"b=x"}, {"b=X"}, {"B=x"}, {"a", "b"}, {"a=2", "a"}} {
		var tags []sm.Tag
		args := []string{"total", "--decimal", "--no-style", "--no-warn"}
		for _, t := range q {
			rt, ok := refQuery(t)
			if !ok {
				harnessFatal("C14: bad query %q", t)
			}
			tags = append(tags, rt)
			args = append(args, "--tag="+t)
		}
		if len(q)%2 == 0 {
			args = append(args, "--period=2020-01") // a date clause that keeps every record must not loosen the tag clause
		}
		sel := c13Apply(recs, []c13Clause{{kind: "tag", recTags: tags}})
		r := clidrv.Run(home, clidrv.Opts{Now: fixedNow}, append(args, path)...)
		wantOut := fmt.Sprintf("Total: %d\n(In %d record%s)\n", sm.Total(sel), len(sel), map[bool]string{true: "", false: "s"}[len(sel) == 1])
		if r.Panicked || r.Code != 0 || r.Stdout != wantOut {
			c.Violation("cli-tag-filter", cs, fmt.Sprintf("`klog %s` (exit %d, panic %v) printed %q, the matching entries give %q", strings.Join(args, " "), r.Code, r.PanicVal, r.Stdout, wantOut))
			return
		}
	}
	c.Outcome("via-cli")
}
