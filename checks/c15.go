package checks

import (
	"encoding/json"
	"fmt"
	"strconv"

	"github.com/jotaen/klog/klog"
	"github.com/jotaen/klog/klog/service/period"

	"klogverif/fw"
	sm "klogverif/specmodel"
)

// C15 — calendar periods tile the calendar exactly. Total sweep over all
// 3,652,425 dates and over all period pattern strings of the four shapes.

const c15YearsPerUnit = 25

// set by c15report.go (which needs the CLI driver and therefore the verif build tag)
var c15ReportHook func(c *fw.Ctx)

func init() {
	fw.Register(&fw.Check{
		ID:    "C15",
		Title: "Calendar periods tile the calendar exactly",
		Rule: "every date 0000-01-01..9999-12-31 (one case per date; all are distinct and non-trivial) and every pattern string " +
			"YYYY, YYYY-MM (00-99), YYYY-Qq (0-9), YYYY-Www (00-99), YYYY-Ww (0-9) plus shape near-misses plus every single-character substitution / insertion (15 characters: signs, blanks, separators, letters, non-ASCII digits) and deletion on one pattern of each shape, for all 10^4 years; " +
			"plus `klog report` for every pair of 13 dates at the calendar's edges x 5 aggregations: same row exactly when same period; " +
			"a case is a (date) or (pattern) and is hashed by its text",
		Assumptions: []string{
			"specmodel calendar (integer civil<->day arithmetic, ISO week by the Thursday rule); cross-checked against Go's time package on every day at the start of each unit",
			"week periods at the two ends of the representable range are expected clamped to 0000-01-01 / 9999-12-31",
			"single-digit week patterns (YYYY-Ww) may be accepted or rejected; if accepted they must denote week w",
		},
		Units:   func(fw.Tier) int { return 10000 / c15YearsPerUnit },
		RunUnit: c15Unit,
		Replay:  c15Replay,
		Finalize: func(r *fw.Result) {
			// distinct bucket hashes must equal the number of periods, per kind (injectivity across the whole calendar)
			exp := map[string]int{"weekhash": 0, "monthhash": 120000, "quarterhash": 40000, "yearhash": 10000, "dayhash": sm.MaxDay + 1}
			seen := map[[2]int]bool{}
			for n := 0; n <= sm.MaxDay; n++ {
				y, w := sm.ISOWeek(n)
				k := [2]int{y, w}
				if !seen[k] {
					seen[k] = true
				}
			}
			exp["weekhash"] = len(seen)
			if r.UnitsDone != 10000/c15YearsPerUnit {
				return
			}
			for k, want := range exp {
				if k == "dayhash" {
					continue
				}
				if got := len(r.SetOf[k]); got != want {
					r.Violations = append(r.Violations, fw.Violation{Property: "C15", Sig: "finalize:hash-not-injective:" + k,
						Case: json.RawMessage(`"` + k + `"`), Detail: fmt.Sprintf("%d distinct %s values for %d periods", got, k, want)})
					r.ViolationsN++
				}
			}
			if r.Extra == nil {
				r.Extra = map[string]any{}
			}
			r.Extra["periods_expected"] = exp
		},
	})
}

type c15Case struct {
	Kind    string `json:"kind"` // "date" | "pattern"
	Date    string `json:"date,omitempty"`
	Pattern string `json:"pattern,omitempty"`
}

func c15Replay(c *fw.Ctx, raw json.RawMessage) {
	var cs c15Case
	if json.Unmarshal(raw, &cs) != nil {
		return
	}
	if cs.Kind == "report" {
		if c15ReportHook != nil {
			c15ReportHook(c)
		}
		return
	}
	if cs.Kind == "date" {
		d, ok := sm.ParseDate(cs.Date)
		if ok {
			c15Date(c, sm.DayNumber(d.Date))
		}
	} else {
		c15Pattern(c, cs.Pattern)
	}
}

func c15Unit(c *fw.Ctx, unit int) {
	if unit == 0 && c15ReportHook != nil {
		c15ReportHook(c)
	}
	y0 := unit * c15YearsPerUnit
	y1 := y0 + c15YearsPerUnit - 1
	calendarSelfTest(c, y0, y1)
	n0 := sm.DayNumber(sm.Date{Y: y0, M: 1, D: 1})
	n1 := sm.DayNumber(sm.Date{Y: y1, M: 12, D: 31})
	for n := n0; n <= n1; n++ {
		c15Date(c, n)
	}
	for y := y0; y <= y1; y++ {
		ys := fmt.Sprintf("%04d", y)
		c15Pattern(c, ys)
		for m := 0; m <= 99; m++ {
			c15Pattern(c, fmt.Sprintf("%s-%02d", ys, m))
		}
		for q := 0; q <= 9; q++ {
			c15Pattern(c, fmt.Sprintf("%s-Q%d", ys, q))
		}
		for w := 0; w <= 99; w++ {
			c15Pattern(c, fmt.Sprintf("%s-W%02d", ys, w))
		}
		for w := 0; w <= 9; w++ {
			c15Pattern(c, fmt.Sprintf("%s-W%d", ys, w))
		}
		for _, nm := range []string{ys + "-", ys + "-1", ys + "-Q", ys + "-W", ys + "-W123", ys[1:], ys + "0", ys + "-Q10", ys + "-q1", ys + "-w01",
			ys + "-001", " " + ys, ys + " ", ys + "-01-01", ys + "/01", ys + "-Q1 ", ys + "-W01x", "-" + ys, ys + "-0Q1", ys + "-W-1", ys + "-+1", ys + "-1Q", ys + "--01"} {
			c15Pattern(c, nm)
		}
		// every single-character substitution, insertion and deletion on one pattern of each shape
		for _, base := range []string{ys, ys + "-06", ys + "-Q2", ys + "-W07"} {
			for pos := 0; pos <= len(base); pos++ {
				for _, ch := range c15EditChars {
					c15Pattern(c, base[:pos]+ch+base[pos:])
					if pos < len(base) {
						c15Pattern(c, base[:pos]+ch+base[pos+1:])
					}
				}
				if pos < len(base) {
					c15Pattern(c, base[:pos]+base[pos+1:])
				}
			}
		}
	}
}

// characters a lenient number or pattern parser is typically fooled by
var c15EditChars = []string{"+", "-", " ", "x", "Q", "W", "0", "9", "/", ".", "_", "\u0660", "\uff11", "\t", "e"}

func sameDate(d klog.Date, n int) bool {
	e := sm.FromDayNumber(n)
	return d != nil && d.Year() == e.Y && d.Month() == e.M && d.Day() == e.D
}

func dstr(n int) string {
	if n < sm.MinDay || n > sm.MaxDay {
		return fmt.Sprintf("day#%d(outside)", n)
	}
	return sm.DateLit{Date: sm.FromDayNumber(n)}.String()
}

func kdstr(d klog.Date) string {
	if d == nil {
		return "<nil>"
	}
	return d.ToString()
}

func c15Date(c *fw.Ctx, n int) {
	e := sm.FromDayNumber(n)
	lit := sm.DateLit{Date: e}.String()
	cs := c15Case{Kind: "date", Date: lit}
	c.Eval(1)
	c.NontrivialString(lit)
	c.Sample(func() any { return cs })
	bad := func(sig, detail string) { c.Violation(sig, cs, lit+": "+detail) }

	d, err := klog.NewDate(e.Y, e.M, e.D)
	if err != nil || d == nil {
		bad("date-rejected", fmt.Sprint("NewDate failed: ", err))
		return
	}
	if d.Year() != e.Y || d.Month() != e.M || d.Day() != e.D {
		bad("date-fields", "fields differ")
	}
	if got, want := d.Weekday(), sm.Weekday(n); got != want {
		bad("weekday", fmt.Sprintf("Weekday()=%d, calendar says %d", got, want))
	}
	wy, ww := sm.ISOWeek(n)
	if gy, gw := d.WeekNumber(); gy != wy || gw != ww {
		bad("iso-week", fmt.Sprintf("WeekNumber()=(%d,%d), calendar says (%d,%d)", gy, gw, wy, ww))
	}
	if got, want := d.Quarter(), sm.Quarter(e.M); got != want {
		bad("quarter", fmt.Sprintf("Quarter()=%d, want %d", got, want))
	}
	// PlusDays to both neighbours
	for _, k := range []int{-1, 1} {
		if n+k >= sm.MinDay && n+k <= sm.MaxDay {
			p, v, st := fw.Try(func() {
				if !sameDate(d.PlusDays(k), n+k) {
					bad("plusdays", fmt.Sprintf("PlusDays(%d)=%s, want %s", k, kdstr(d.PlusDays(k)), dstr(n+k)))
				}
			})
			if p {
				bad("panic:"+fw.PanicSite(st), fmt.Sprintf("PlusDays(%d) panicked: %v\n%s", k, v, st))
			}
		}
	}

	type pk struct {
		name         string
		since, until int // expected bounds (unclamped)
		period       func() period.Period
		prev         func() period.Period
		hash         func() uint32
	}
	ws, wu := sm.WeekBounds(n)
	ms, mu := sm.MonthBounds(e.Y, e.M)
	qs, qu := sm.QuarterBounds(e.Y, sm.Quarter(e.M))
	ys, yu := sm.YearBounds(e.Y)
	kinds := []pk{
		{"week", ws, wu, func() period.Period { return period.NewWeekFromDate(d).Period() }, func() period.Period { return period.NewWeekFromDate(d).Previous().Period() }, func() uint32 { return uint32(period.NewWeekFromDate(d).Hash()) }},
		{"month", ms, mu, func() period.Period { return period.NewMonthFromDate(d).Period() }, func() period.Period { return period.NewMonthFromDate(d).Previous().Period() }, func() uint32 { return uint32(period.NewMonthFromDate(d).Hash()) }},
		{"quarter", qs, qu, func() period.Period { return period.NewQuarterFromDate(d).Period() }, func() period.Period { return period.NewQuarterFromDate(d).Previous().Period() }, func() uint32 { return uint32(period.NewQuarterFromDate(d).Hash()) }},
		{"year", ys, yu, func() period.Period { return period.NewYearFromDate(d).Period() }, func() period.Period { return period.NewYearFromDate(d).Previous().Period() }, func() uint32 { return uint32(period.NewYearFromDate(d).Hash()) }},
	}
	var prevDay klog.Date
	if n > sm.MinDay {
		pe := sm.FromDayNumber(n - 1)
		prevDay, _ = klog.NewDate(pe.Y, pe.M, pe.D)
	}
	for _, k := range kinds {
		var p period.Period
		pn, v, st := fw.Try(func() { p = k.period() })
		if pn {
			bad("panic:"+k.name+"-period:"+fw.PanicSite(st), fmt.Sprintf("%s Period() panicked: %v\n%s", k.name, v, st))
		} else if p == nil || !sameDate(p.Since(), sm.Clamp(k.since)) || !sameDate(p.Until(), sm.Clamp(k.until)) {
			bad(k.name+"-bounds", fmt.Sprintf("%s period = %s..%s, want %s..%s", k.name, kdstr(p.Since()), kdstr(p.Until()), dstr(sm.Clamp(k.since)), dstr(sm.Clamp(k.until))))
		}
		// previous period, where fully representable
		var ps, pu int
		switch k.name {
		case "week":
			ps, pu = k.since-7, k.since-1
		case "month":
			pd := sm.FromDayNumber(sm.Clamp(k.since - 1))
			ps, pu = sm.MonthBounds(pd.Y, pd.M)
		case "quarter":
			pd := sm.FromDayNumber(sm.Clamp(k.since - 1))
			ps, pu = sm.QuarterBounds(pd.Y, sm.Quarter(pd.M))
		case "year":
			if e.Y > 0 {
				ps, pu = sm.YearBounds(e.Y - 1)
			}
		}
		if k.since-1 >= sm.MinDay && ps >= sm.MinDay && k.since >= sm.MinDay {
			var pp period.Period
			pn, v, st := fw.Try(func() { pp = k.prev() })
			if pn {
				bad("panic:"+k.name+"-previous:"+fw.PanicSite(st), fmt.Sprintf("%s Previous().Period() panicked: %v\n%s", k.name, v, st))
			} else if pp == nil || !sameDate(pp.Since(), ps) || !sameDate(pp.Until(), pu) {
				bad(k.name+"-previous", fmt.Sprintf("previous %s = %s..%s, want %s..%s", k.name, kdstr(pp.Since()), kdstr(pp.Until()), dstr(ps), dstr(pu)))
			}
			c.Outcome(k.name + "-previous-checked")
		} else {
			c.Outcome(k.name + "-previous-unrepresentable")
		}
		// bucket hash: equal to the previous day's hash exactly when both lie in the same period
		var h uint32
		if pn, v, st := fw.Try(func() { h = k.hash() }); pn {
			bad("panic:"+k.name+"-hash:"+fw.PanicSite(st), fmt.Sprintf("%s Hash() panicked: %v\n%s", k.name, v, st))
			continue
		}
		if n == sm.Clamp(k.since) {
			c.SetAdd(k.name+"hash", strconv.FormatUint(uint64(h), 10))
		}
		if prevDay != nil {
			var hp uint32
			switch k.name {
			case "week":
				hp = uint32(period.NewWeekFromDate(prevDay).Hash())
			case "month":
				hp = uint32(period.NewMonthFromDate(prevDay).Hash())
			case "quarter":
				hp = uint32(period.NewQuarterFromDate(prevDay).Hash())
			case "year":
				hp = uint32(period.NewYearFromDate(prevDay).Hash())
			}
			same := n-1 >= k.since
			if (h == hp) != same {
				bad(k.name+"-hash", fmt.Sprintf("%s hash %d vs previous day's %d, same period: %v", k.name, h, hp, same))
			}
		}
	}
	// day hash: differs from the previous day's
	if prevDay != nil && period.NewDayFromDate(d).Hash() == period.NewDayFromDate(prevDay).Hash() {
		bad("day-hash", "day hash equals previous day's")
	}
}

func c15Pattern(c *fw.Ctx, s string) {
	cs := c15Case{Kind: "pattern", Pattern: s}
	c.Eval(1)
	c.NontrivialString("p" + s)
	bad := func(sig, detail string) { c.Violation(sig, cs, "pattern "+strconv.Quote(s)+": "+detail) }

	// expectation
	exists, since, until, dontCareAccept := c15Expect(s)
	var p period.Period
	var err error
	pn, v, st := fw.Try(func() { p, err = period.NewPeriodFromPatternString(s) })
	if pn {
		bad("panic:pattern:"+fw.PanicSite(st), fmt.Sprintf("panicked: %v\n%s", v, st))
		return
	}
	accepted := err == nil && p != nil
	if !exists {
		if accepted {
			bad("pattern-accepted", fmt.Sprintf("accepted as %s..%s but no such period exists", kdstr(p.Since()), kdstr(p.Until())))
		}
		c.Outcome("pattern-rejected")
		return
	}
	if !accepted {
		if dontCareAccept {
			c.Outcome("pattern-short-week-rejected")
			return
		}
		bad("pattern-rejected", fmt.Sprintf("rejected, but denotes %s..%s", dstr(since), dstr(until)))
		return
	}
	c.Outcome("pattern-accepted")
	if !sameDate(p.Since(), since) || !sameDate(p.Until(), until) {
		bad("pattern-bounds", fmt.Sprintf("denotes %s..%s, want %s..%s", kdstr(p.Since()), kdstr(p.Until()), dstr(since), dstr(until)))
	}
}

// c15Expect classifies a pattern string by the four shapes.
func c15Expect(s string) (exists bool, since, until int, dontCareAccept bool) {
	digits := func(t string) (int, bool) {
		if t == "" {
			return 0, false
		}
		n := 0
		for i := 0; i < len(t); i++ {
			if t[i] < '0' || t[i] > '9' {
				return 0, false
			}
			n = n*10 + int(t[i]-'0')
		}
		return n, true
	}
	if len(s) < 4 {
		return
	}
	y, ok := digits(s[:4])
	if !ok {
		return
	}
	rest := s[4:]
	if rest == "" {
		since, until = sm.YearBounds(y)
		return true, since, until, false
	}
	if rest[0] != '-' {
		return
	}
	rest = rest[1:]
	switch {
	case len(rest) == 2 && rest[0] != 'Q' && rest[0] != 'W':
		m, ok := digits(rest)
		if !ok || m < 1 || m > 12 {
			return
		}
		since, until = sm.MonthBounds(y, m)
		return true, since, until, false
	case len(rest) == 2 && rest[0] == 'Q':
		q, ok := digits(rest[1:])
		if !ok || q < 1 || q > 4 {
			return
		}
		since, until = sm.QuarterBounds(y, q)
		return true, since, until, false
	case (len(rest) == 2 || len(rest) == 3) && rest[0] == 'W':
		w, ok := digits(rest[1:])
		if !ok {
			return
		}
		mon, ok := sm.MondayOfISOWeek(y, w)
		if !ok {
			return
		}
		return true, sm.Clamp(mon), sm.Clamp(mon + 6), len(rest) == 2
	}
	return
}
