//go:build verif

package checks

import (
	"fmt"
	"strings"

	"github.com/jotaen/klog/klog/app/cli"
	cliutil "github.com/jotaen/klog/klog/app/cli/util"

	"klogverif/clidrv"
	"klogverif/fw"
	sm "klogverif/specmodel"
)

func init() { c15ReportHook = c15Report }

// c15Report: `klog report --aggregate …` puts two dates into the same row exactly when they lie in the same period -
// for every pair of dates from a set at the edges of the calendar (years 0000, 0001, 9999; quarter, month and week edges).
func c15Report(c *fw.Ctx) {
	edge := []sm.Date{{Y: 0, M: 1, D: 1}, {Y: 0, M: 1, D: 3}, {Y: 0, M: 12, D: 31}, {Y: 1, M: 1, D: 1}, {Y: 1, M: 1, D: 7}, {Y: 2020, M: 2, D: 29}, {Y: 2020, M: 12, D: 28}, {Y: 2021, M: 1, D: 3},
		{Y: 9999, M: 9, D: 30}, {Y: 9999, M: 10, D: 1}, {Y: 9999, M: 12, D: 26}, {Y: 9999, M: 12, D: 27}, {Y: 9999, M: 12, D: 31}}
	dir := fw.Scratch()
	home := clidrv.Home("home")
	for i, a := range edge {
		for _, b := range edge[i:] {
			text := sm.DateLit{Date: a}.String() + "\n    1m\n\n" + sm.DateLit{Date: b}.String() + "\n    2m\n"
			path := clidrv.WriteFile(dir, "c15r.klg", text)
			na, nb := sm.DayNumber(a), sm.DayNumber(b)
			for _, agg := range []string{"day", "week", "month", "quarter", "year"} {
				same := false
				switch agg {
				case "day":
					same = na == nb
				case "week":
					ya, wa := sm.ISOWeek(na)
					yb, wb := sm.ISOWeek(nb)
					same = ya == yb && wa == wb
				case "month":
					same = a.Y == b.Y && a.M == b.M
				case "quarter":
					same = a.Y == b.Y && sm.Quarter(a.M) == sm.Quarter(b.M)
				default:
					same = a.Y == b.Y
				}
				c.Eval(1)
				c.NontrivialString("r" + text + agg)
				cs := c15Case{Kind: "report", Date: sm.DateLit{Date: a}.String() + " " + sm.DateLit{Date: b}.String(), Pattern: agg}
				r := clidrv.Exec(home, clidrv.Opts{Now: fixedNow}, &cli.Report{AggregateBy: agg, DecimalArgs: cliutil.DecimalArgs{Decimal: true}, NoStyleArgs: cliutil.NoStyleArgs{NoStyle: true}, WarnArgs: cliutil.WarnArgs{NoWarn: true}, InputFilesArgs: fileArgs(path)})
				if r.Panicked || r.Code != 0 {
					c.Violation("report-buckets-failed", cs, fmt.Sprintf("`klog report --aggregate %s` failed: exit %d panic %v %s\n%s", agg, r.Code, r.PanicVal, r.Err, r.Stack))
					return
				}
				var vals []string
				lines := strings.Split(strings.TrimRight(r.Stdout, "\n"), "\n")
				for _, l := range lines[1:] {
					if strings.Contains(l, "=") {
						break
					}
					if f := strings.Fields(l); len(f) > 0 {
						vals = append(vals, f[len(f)-1])
					}
				}
				want := []string{"1", "2"}
				if same {
					want = []string{"3"}
				}
				if fmt.Sprint(vals) != fmt.Sprint(want) {
					c.Violation("report-buckets", cs, fmt.Sprintf("`klog report --aggregate %s` for records dated %s shows the row totals %v, expected %v (same %s: %v)\n%s", agg, cs.Date, vals, want, agg, same, r.Stdout))
					return
				}
			}
		}
	}
	c.Outcome("report-buckets")
}
