package checks

import (
	"encoding/json"
	"fmt"
	"strconv"

	"github.com/jotaen/klog/klog"

	"klogverif/fw"
	sm "klogverif/specmodel"
)

// C16 — dates, times, durations, ranges: exact text round trip and exact arithmetic.
// Total sweeps over the finite domains named by the property.

const (
	c16PairChunks = 90 // 4320 start times / 48
	c16DateChunks = 100
)

func init() {
	fw.Register(&fw.Check{
		ID:    "C16",
		Title: "Dates, times, durations and ranges: exact text round trip and exact arithmetic",
		Rule: "families: T = all 132,000 strings <?D{1,2}:DD(am|pm)?>? ; R = all 4320 shifted times x {24h,12h} round trip and equivalence; " +
			"P = all 4320x4320 ordered time pairs (range validity, duration, ordering); A = all 4320 times x all d in [-2880,2880] (Plus); " +
			"D = all strings YYYYsMMtDD with s,t in {-,/}, MM 00-13, DD 00-32, all years; U = all duration strings sign{,+,-} x h 0-120 x m 0-130 x {NhMm,Nh,Mm} " +
			"plus malformed near-misses; G = range and open-range LITERALS through the parser: 12 x 12 boundary times (and every placeholder ?, ??, ???) x 14 separators (dense, spaced, several spaces, one-sided, tabs on either side, en dash, doubled dash, missing). One case = one string / pair / (time,delta); all are distinct by construction and hashed by their text.",
		Assumptions: []string{
			"specmodel value grammar (ParseTime/ParseDate/ParseDuration written from Specification.md §I)",
			"spec erratum: the example `<23:00am` contradicts the normative 12-hour rule (hour 1-12); the rule wins",
		},
		Units:   func(fw.Tier) int { return 1 + c16PairChunks + c16PairChunks + c16DateChunks + 1 },
		RunUnit: c16Unit,
		Replay:  c16Replay,
	})
}

type c16Case struct {
	Fam string `json:"fam"`
	A   string `json:"a,omitempty"`
	B   string `json:"b,omitempty"`
	D   int    `json:"d,omitempty"`
}

func c16Unit(c *fw.Ctx, unit int) {
	switch {
	case unit == 0:
		c16TimeStrings(c)
		c16TimeRoundTrip(c)
	case unit <= c16PairChunks:
		c16Pairs(c, unit-1)
	case unit <= 2*c16PairChunks:
		c16Plus(c, unit-1-c16PairChunks)
	case unit <= 2*c16PairChunks+c16DateChunks:
		c16Dates(c, unit-1-2*c16PairChunks)
	default:
		c16Durations(c)
		c16RangeLiterals(c)
	}
}

func c16Replay(c *fw.Ctx, raw json.RawMessage) {
	var cs c16Case
	if json.Unmarshal(raw, &cs) != nil {
		return
	}
	switch cs.Fam {
	case "T":
		c16TimeString(c, cs.A)
	case "R":
		t, ok := sm.ParseTime(cs.A)
		if ok {
			c16RoundTripOne(c, t)
		}
	case "P":
		a, _ := sm.ParseTime(cs.A)
		b, _ := sm.ParseTime(cs.B)
		ka, _ := klog.NewTimeFromString(cs.A)
		kb, _ := klog.NewTimeFromString(cs.B)
		if ka != nil && kb != nil {
			c16Pair(c, a, b, ka, kb)
		}
	case "A":
		a, _ := sm.ParseTime(cs.A)
		ka, _ := klog.NewTimeFromString(cs.A)
		if ka != nil {
			c16PlusOne(c, a, ka, cs.D)
		}
	case "D":
		c16DateString(c, cs.A)
	case "U":
		c16DurationString(c, cs.A)
	case "G":
		c16RangeLiteral(c, cs.A)
	}
}

func timeDescr(t klog.Time) string {
	if t == nil {
		return "<nil>"
	}
	return fmt.Sprintf("%s[mins=%d 24h=%v]", t.ToString(), t.MidnightOffset().InMinutes(), t.Format().Use24HourClock)
}

// sameTime compares a klog time with a reference denotation (value, notation, accessors).
func sameTime(k klog.Time, r sm.TimeLit) bool {
	if k == nil {
		return false
	}
	return k.MidnightOffset().InMinutes() == r.Mins &&
		k.Format().Use24HourClock == !r.TwelveH &&
		k.IsYesterday() == (r.Shift() < 0) && k.IsTomorrow() == (r.Shift() > 0) && k.IsToday() == (r.Shift() == 0) &&
		k.Hour() == r.Hour() && k.Minute() == r.Minute()
}

func c16TimeStrings(c *fw.Ctx) {
	for _, pre := range []string{"", "<"} {
		for hd := 1; hd <= 2; hd++ {
			maxH := 10
			if hd == 2 {
				maxH = 100
			}
			for h := 0; h < maxH; h++ {
				hs := strconv.Itoa(h)
				if hd == 2 && h < 10 {
					hs = "0" + hs
				}
				for m := 0; m < 100; m++ {
					for _, ap := range []string{"", "am", "pm"} {
						for _, suf := range []string{"", ">"} {
							c16TimeString(c, fmt.Sprintf("%s%s:%02d%s%s", pre, hs, m, ap, suf))
						}
					}
				}
			}
		}
	}
	// shape near-misses (must all be rejected)
	for _, s := range []string{"", ":", "8", "8:", ":00", "8:0", "8:000", "008:00", "8:00 ", " 8:00", "8:00AM", "8:00a", "8:00m", "8.00", "8:00>>", "<<8:00",
		">8:00", "8:00<", "8:00am>>", "8:00>am", "-8:00", "+8:00", "8:00ampm", "8:00pmam", "٨:٠٠", "８:００", "8:00\n", "1:2:3", "24:00:00", "8:00 am", "8:-1", "１2:00"} {
		c16TimeString(c, s)
	}
}

func c16TimeString(c *fw.Ctx, s string) {
	cs := c16Case{Fam: "T", A: s}
	c.Eval(1)
	c.NontrivialString("T" + s)
	c.Sample(func() any { return cs })
	ref, ok := sm.ParseTime(s)
	var k klog.Time
	var err error
	if p, v, st := fw.Try(func() { k, err = klog.NewTimeFromString(s) }); p {
		c.Violation("panic:time:"+fw.PanicSite(st), cs, fmt.Sprintf("NewTimeFromString(%q) panicked: %v\n%s", s, v, st))
		return
	}
	acc := err == nil && k != nil
	switch {
	case ok && !acc:
		c.Violation("time-rejected", cs, fmt.Sprintf("%q is a time literal of the specification (denotes %d min, 12h=%v) but was rejected: %v", s, ref.Mins, ref.TwelveH, err))
	case !ok && acc:
		c.Violation("time-accepted", cs, fmt.Sprintf("%q is not a time literal of the specification but was accepted as %s", s, timeDescr(k)))
	case ok && acc:
		c.Outcome("time-accepted")
		if !sameTime(k, ref) {
			c.Violation("time-denotation", cs, fmt.Sprintf("%q denotes mins=%d 12h=%v hour=%d minute=%d; klog: %s hour=%d minute=%d", s, ref.Mins, ref.TwelveH, ref.Hour(), ref.Minute(), timeDescr(k), k.Hour(), k.Minute()))
		}
		// writing it out gives the canonical literal of that value in the same notation, which reads back identically
		if out := k.ToString(); out != ref.String() {
			c.Violation("time-tostring", cs, fmt.Sprintf("%q written out as %q, canonical literal is %q", s, out, ref.String()))
		} else if k2, err2 := klog.NewTimeFromString(out); err2 != nil || !sameTime(k2, ref) {
			c.Violation("time-roundtrip", cs, fmt.Sprintf("%q -> %q -> %s", s, out, timeDescr(k2)))
		}
	default:
		c.Outcome("time-rejected")
	}
}

// allTimes returns the 4320 shifted times as (reference, klog) pairs in the given notation.
func allTimes(twelve bool) ([]sm.TimeLit, []klog.Time) {
	var rs []sm.TimeLit
	var ks []klog.Time
	for mins := -1440; mins < 2880; mins++ {
		r := sm.TimeLit{Mins: mins, TwelveH: twelve}
		k, err := klog.NewTimeFromString(r.String())
		if err != nil {
			k = nil
		}
		rs = append(rs, r)
		ks = append(ks, k)
	}
	return rs, ks
}

func c16TimeRoundTrip(c *fw.Ctx) {
	for _, tw := range []bool{false, true} {
		for mins := -1440; mins < 2880; mins++ {
			c16RoundTripOne(c, sm.TimeLit{Mins: mins, TwelveH: tw})
		}
	}
}

func c16RoundTripOne(c *fw.Ctx, r sm.TimeLit) {
	lit := r.String()
	cs := c16Case{Fam: "R", A: lit}
	c.Eval(1)
	c.NontrivialString("R" + lit)
	k, err := klog.NewTimeFromString(lit)
	if err != nil || !sameTime(k, r) {
		c.Violation("time-canonical-literal", cs, fmt.Sprintf("canonical literal %q (mins=%d) read as %s, err=%v", lit, r.Mins, timeDescr(k), err))
		return
	}
	// reformatting to the other notation keeps the value
	other := sm.TimeLit{Mins: r.Mins, TwelveH: !r.TwelveH}
	if got := k.ToStringWithFormat(klog.TimeFormat{Use24HourClock: r.TwelveH}); got != other.String() {
		c.Violation("time-reformat", cs, fmt.Sprintf("%q in the other notation: got %q, want %q", lit, got, other.String()))
	}
	// ... and leaves the value itself (and its own notation) as it was
	if got := k.ToString(); got != lit || k.Format().Use24HourClock == r.TwelveH {
		c.Violation("time-reformat-mutates", cs, fmt.Sprintf("after writing %q out in the other notation, the value itself prints as %q (24h=%v)", lit, got, k.Format().Use24HourClock))
	}
	// the equivalent spellings of the specification denote the same value, and nothing else does
	var alts []string
	h, m := r.Hour(), r.Minute()
	if !r.TwelveH {
		alts = append(alts, fmt.Sprintf("%s%02d:%02d%s", map[bool]string{true: "<"}[r.Shift() < 0], h, m, map[bool]string{true: ">"}[r.Shift() > 0]))
		if h == 0 && m == 0 && r.Shift() >= 0 {
			// 0:00 == <24:00 ; 0:00> == 24:00
			if r.Shift() == 0 {
				alts = append(alts, "<24:00")
			} else {
				alts = append(alts, "24:00")
			}
		}
	}
	alts = append(alts, other.String())
	for _, a := range alts {
		ka, err := klog.NewTimeFromString(a)
		if err != nil {
			c.Violation("time-equivalent-rejected", cs, fmt.Sprintf("%q (equivalent spelling of %q) rejected", a, lit))
			continue
		}
		if !ka.IsEqualTo(k) || !k.IsEqualTo(ka) || ka.MidnightOffset().InMinutes() != r.Mins {
			c.Violation("time-equivalence", cs, fmt.Sprintf("%q and %q must denote the same time; klog: %s vs %s", a, lit, timeDescr(ka), timeDescr(k)))
		}
	}
}

func c16Pairs(c *fw.Ctx, chunk int) {
	rs, ks := allTimes(false)
	_, ks12 := allTimes(true)
	per := len(rs) / c16PairChunks
	for i := chunk * per; i < (chunk+1)*per; i++ {
		for j := range rs {
			a, b := ks[i], ks[j]
			if (i+j)%5 == 0 { // mix in the 12-hour notation on a fixed fifth of the pairs
				a = ks12[i]
			}
			if a == nil || b == nil {
				continue // reported by family R
			}
			c16Pair(c, rs[i], rs[j], a, b)
		}
	}
}

func c16Pair(c *fw.Ctx, ra, rb sm.TimeLit, a, b klog.Time) {
	c.Eval(1)
	c.Nontrivial(uint64(ra.Mins+1440)*8192 + uint64(rb.Mins+1440) + 1<<40)
	mk := func() c16Case { return c16Case{Fam: "P", A: a.ToString(), B: b.ToString()} }
	c.Sample(func() any { return mk() })
	valid := rb.Mins >= ra.Mins
	if b.IsAfterOrEqual(a) != valid {
		c.Violation("time-order", mk(), fmt.Sprintf("IsAfterOrEqual(%s, %s) = %v", b.ToString(), a.ToString(), !valid))
	}
	if a.IsEqualTo(b) != (ra.Mins == rb.Mins) {
		c.Violation("time-equality", mk(), fmt.Sprintf("IsEqualTo(%s, %s) = %v", a.ToString(), b.ToString(), a.IsEqualTo(b)))
	}
	r, err := klog.NewRange(a, b)
	if valid != (err == nil && r != nil) {
		c.Violation("range-validity", mk(), fmt.Sprintf("range %s - %s: valid per spec = %v, klog err = %v", a.ToString(), b.ToString(), valid, err))
		return
	}
	if valid {
		if d := r.Duration().InMinutes(); d != rb.Mins-ra.Mins {
			c.Violation("range-duration", mk(), fmt.Sprintf("range %s - %s lasts %d min, klog says %d", a.ToString(), b.ToString(), rb.Mins-ra.Mins, d))
		}
		if want := a.ToString() + " - " + b.ToString(); r.ToString() != want {
			c.Violation("range-tostring", mk(), fmt.Sprintf("range written as %q, want %q", r.ToString(), want))
		}
	}
}

func c16Plus(c *fw.Ctx, chunk int) {
	rs, ks := allTimes(false)
	_, ks12 := allTimes(true)
	per := len(rs) / c16PairChunks
	for i := chunk * per; i < (chunk+1)*per; i++ {
		for d := -2880; d <= 2880; d++ {
			a, r := ks[i], rs[i]
			if (i+d)%4 == 0 {
				a, r = ks12[i], sm.TimeLit{Mins: rs[i].Mins, TwelveH: true}
			}
			if a == nil {
				continue
			}
			c16PlusOne(c, r, a, d)
		}
	}
}

func c16PlusOne(c *fw.Ctx, r sm.TimeLit, a klog.Time, d int) {
	c.Eval(1)
	c.Nontrivial(uint64(r.Mins+1440)*8192 + uint64(d+2880) + 2<<40)
	mk := func() c16Case { return c16Case{Fam: "A", A: a.ToString(), D: d} }
	c.Sample(func() any { return mk() })
	want := r.Mins + d
	representable := want >= -1440 && want <= 2879
	var res klog.Time
	var err error
	if p, v, st := fw.Try(func() { res, err = a.Plus(klog.NewDuration(0, d)) }); p {
		c.Violation("panic:plus:"+fw.PanicSite(st), mk(), fmt.Sprintf("%s.Plus(%dm) panicked: %v\n%s", a.ToString(), d, v, st))
		return
	}
	if !representable {
		if err == nil {
			c.Violation("plus-no-error", mk(), fmt.Sprintf("%s + %dm lies outside previous..next day but Plus returned %s", a.ToString(), d, timeDescr(res)))
		}
		c.Outcome("plus-unrepresentable")
		return
	}
	c.Outcome("plus-ok")
	if err != nil || res == nil {
		c.Violation("plus-error", mk(), fmt.Sprintf("%s + %dm = %d min is representable but Plus failed: %v", a.ToString(), d, want, err))
		return
	}
	if !sameTime(res, sm.TimeLit{Mins: want, TwelveH: r.TwelveH}) {
		c.Violation("plus-value", mk(), fmt.Sprintf("%s + %dm: want mins=%d (notation kept), klog %s", a.ToString(), d, want, timeDescr(res)))
	}
}

func c16Dates(c *fw.Ctx, chunk int) {
	per := 10000 / c16DateChunks
	buf := make([]byte, 10)
	for y := chunk * per; y < (chunk+1)*per; y++ {
		for m := 0; m <= 13; m++ {
			for d := 0; d <= 32; d++ {
				for _, s1 := range []byte{'-', '/'} {
					for _, s2 := range []byte{'-', '/'} {
						buf[0], buf[1], buf[2], buf[3] = byte('0'+y/1000), byte('0'+y/100%10), byte('0'+y/10%10), byte('0'+y%10)
						buf[4] = s1
						buf[5], buf[6] = byte('0'+m/10), byte('0'+m%10)
						buf[7] = s2
						buf[8], buf[9] = byte('0'+d/10), byte('0'+d%10)
						c16DateString(c, string(buf))
					}
				}
			}
		}
	}
	if chunk == 0 {
		for _, s := range []string{"", "2000-1-01", "2000-01-1", "200-01-01", "20000-01-01", "2000-01-01 ", " 2000-01-01", "2000.01.01", "2000-01-01x", "2000_01_01", "２０００-01-01",
			"2000-001-01", "2000--01-01", "-2000-01-01", "+200-01-01", "2000-01-01\n", "2000-01", "2000", "01-01-2000", "2000-1-1", "20-01-01", "2000/01/01/"} {
			c16DateString(c, s)
		}
	}
}

func c16DateString(c *fw.Ctx, s string) {
	c.Eval(1)
	c.NontrivialString("D" + s)
	mk := func() c16Case { return c16Case{Fam: "D", A: s} }
	c.Sample(func() any { return mk() })
	ref, ok := sm.ParseDate(s)
	var k klog.Date
	var err error
	if p, v, st := fw.Try(func() { k, err = klog.NewDateFromString(s) }); p {
		c.Violation("panic:date:"+fw.PanicSite(st), mk(), fmt.Sprintf("NewDateFromString(%q) panicked: %v\n%s", s, v, st))
		return
	}
	acc := err == nil && k != nil
	switch {
	case ok && !acc:
		c.Violation("date-rejected", mk(), fmt.Sprintf("%q is a date of the specification but was rejected: %v", s, err))
	case !ok && acc:
		c.Violation("date-accepted", mk(), fmt.Sprintf("%q is not a valid date literal but was accepted as %s", s, k.ToString()))
	case ok && acc:
		c.Outcome("date-accepted")
		if k.Year() != ref.Y || k.Month() != ref.M || k.Day() != ref.D || k.Format().UseDashes == ref.Slash {
			c.Violation("date-denotation", mk(), fmt.Sprintf("%q read as %d-%d-%d dashes=%v", s, k.Year(), k.Month(), k.Day(), k.Format().UseDashes))
		}
		if k.ToString() != s {
			c.Violation("date-roundtrip", mk(), fmt.Sprintf("%q written out as %q", s, k.ToString()))
		}
		other := sm.DateLit{Date: ref.Date, Slash: !ref.Slash}
		if got := k.ToStringWithFormat(klog.DateFormat{UseDashes: ref.Slash}); got != other.String() {
			c.Violation("date-reformat", mk(), fmt.Sprintf("%q in the other notation: %q, want %q", s, got, other.String()))
		}
		if k.ToString() != s || k.Format().UseDashes == ref.Slash {
			c.Violation("date-reformat-mutates", mk(), fmt.Sprintf("after writing %q out in the other notation, the value itself prints as %q", s, k.ToString()))
		}
	default:
		c.Outcome("date-rejected")
	}
}

func c16Durations(c *fw.Ctx) {
	for _, sign := range []string{"", "+", "-"} {
		for h := 0; h <= 120; h++ {
			for m := 0; m <= 130; m++ {
				c16DurationString(c, fmt.Sprintf("%s%dh%dm", sign, h, m))
				if h == 0 {
					c16DurationString(c, fmt.Sprintf("%s%dm", sign, m))
					c16DurationString(c, fmt.Sprintf("%s%02dm", sign, m)) // leading zero: still an integer
				}
				if m == 0 {
					c16DurationString(c, fmt.Sprintf("%s%dh", sign, h))
					c16DurationString(c, fmt.Sprintf("%s%03dh", sign, h))
				}
			}
		}
	}
	for _, s := range []string{"", "h", "m", "hm", "1", "1h1", "1m1h", "1m1m", "1h1h", "1h 1m", " 1h", "1h ", "1H", "1M", "1h1M", "--1h", "+-1h", "-+1h", "1.5h", "1,5h", "1h30", "30m1h",
		"1hm", "h1m", "1h-1m", "1h+1m", "−1h", "１h", "1h\n", "1d", "1s", "1h1m1s", "0x1h", "1e1m", "+", "-", "+h", "-m", "1 h", "1h1 m"} {
		c16DurationString(c, s)
	}
}

func c16DurationString(c *fw.Ctx, s string) {
	c.Eval(1)
	c.NontrivialString("U" + s)
	mk := func() c16Case { return c16Case{Fam: "U", A: s} }
	c.Sample(func() any { return mk() })
	ref, ok := sm.ParseDuration(s)
	if ok && ref.Big {
		c.Outcome("duration-dont-care")
		return
	}
	var k klog.Duration
	var err error
	if p, v, st := fw.Try(func() { k, err = klog.NewDurationFromString(s) }); p {
		c.Violation("panic:duration:"+fw.PanicSite(st), mk(), fmt.Sprintf("NewDurationFromString(%q) panicked: %v\n%s", s, v, st))
		return
	}
	acc := err == nil && k != nil
	switch {
	case ok && !acc:
		c.Violation("duration-rejected", mk(), fmt.Sprintf("%q is a duration of the specification (%d min) but was rejected: %v", s, ref.Mins, err))
	case !ok && acc:
		c.Violation("duration-accepted", mk(), fmt.Sprintf("%q is not a duration literal but was accepted as %s", s, k.ToString()))
	case ok && acc:
		c.Outcome("duration-accepted")
		if k.InMinutes() != ref.Mins {
			c.Violation("duration-value", mk(), fmt.Sprintf("%q denotes %d min, klog says %d", s, ref.Mins, k.InMinutes()))
			return
		}
		// canonical spelling, keeping the sign notation (explicit '+', sign of a zero value)
		want := sm.CanonicalDuration(ref.Mins)
		if ref.Mins > 0 && ref.Plus {
			want = "+" + want
		}
		if ref.Mins == 0 {
			if ref.ZeroSign < 0 {
				want = "-" + want
			} else if ref.ZeroSign > 0 {
				want = "+" + want
			}
		}
		out := k.ToString()
		if out != want {
			c.Violation("duration-tostring", mk(), fmt.Sprintf("%q written out as %q, canonical is %q", s, out, want))
			return
		}
		k2, err2 := klog.NewDurationFromString(out)
		if err2 != nil || k2.InMinutes() != ref.Mins || k2.ToString() != out {
			c.Violation("duration-roundtrip", mk(), fmt.Sprintf("%q -> %q -> %v (%v)", s, out, k2, err2))
		}
	default:
		c.Outcome("duration-rejected")
	}
}

// ---- G: range literals as the parser reads them (what may stand around the dash)

var c16RangeTimes = []string{"<23:00", "<24:00", "0:00", "8:00", "08:00", "11:59am", "12:00pm", "12:30pm", "23:59", "24:00", "0:30>", "23:59>"}
var c16RangeSeps = []string{"-", " - ", "  -  ", " -", "- ", "   -", "-\t", "\t-", " -\t", "\t-\t", " \t- ", " \u2013 ", " -- ", " "}

func c16RangeLiterals(c *fw.Ctx) {
	for _, a := range c16RangeTimes {
		for _, sep := range c16RangeSeps {
			for _, b := range c16RangeTimes {
				c16RangeLiteral(c, a+sep+b)
			}
			for _, ph := range []string{"?", "??", "???", "?>", "<?"} {
				c16RangeLiteral(c, a+sep+ph)
			}
		}
	}
}

func c16RangeLiteral(c *fw.Ctx, lit string) {
	cs := c16Case{Fam: "G", A: lit}
	c.Eval(1)
	c.NontrivialString("G" + lit)
	text := "2020-01-01\n    " + lit + " summary\n"
	ref := sm.Parse(text)
	rs, _, errs, panicked, pv, st := klogParse(text)
	if panicked {
		c.Violation("panic:range-literal:"+fw.PanicSite(st), cs, fmt.Sprintf("parsing the entry %q panicked: %v\n%s", lit, pv, st))
		return
	}
	switch ref.Verdict {
	case sm.Unspec:
		c.Outcome("range-literal-dont-care")
	case sm.Invalid:
		c.Outcome("range-literal-rejected")
		if len(errs) == 0 {
			c.Violation("range-literal-accepted", cs, fmt.Sprintf("%q is not a range, open range or duration followed by a summary (%s) but is accepted:\n%s", lit, ref.Rule, canonKlog(rs, nil)))
		}
	case sm.Valid:
		c.Outcome("range-literal-accepted")
		if len(errs) > 0 {
			c.Violation("range-literal-rejected", cs, fmt.Sprintf("%q is a valid entry but is rejected: %s", lit, errSummary(errs)))
			return
		}
		if got, want := canonKlog(rs, ref.Records), canonRef(ref.Records); got != want {
			c.Violation("range-literal-denotation", cs, fmt.Sprintf("%q is read as\n%sbut denotes\n%s", lit, got, want))
		} else if why := matchPrinted(plainPrint(rs), refPrintLines(ref.Records)); why != "" {
			c.Violation("range-literal-written-out", cs, fmt.Sprintf("%q written out again: %s", lit, why))
		}
	}
}
