//go:build verif

package checks

import (
	"encoding/json"
	"fmt"
	"os"
	"path/filepath"
	"strconv"
	"strings"
	gotime "time"

	"github.com/jotaen/klog/klog/app/cli"
	cliutil "github.com/jotaen/klog/klog/app/cli/util"

	"klogverif/clidrv"
	"klogverif/docgen"
	"klogverif/fw"
	sm "klogverif/specmodel"
)

// C17 — clock-relative behaviour is right at every minute of the day.

var c17Days = []sm.Date{
	{Y: 2021, M: 3, D: 10},  // ordinary
	{Y: 2024, M: 3, D: 1},   // day after a leap day
	{Y: 2024, M: 4, D: 1},   // the day after the clocks went forward in Europe/Berlin (the clock is expressed in that zone: clidrv)
	{Y: 2024, M: 10, D: 27}, // the day the clocks go back there (25 hours long)
	{Y: 2021, M: 1, D: 31},  // month end
	{Y: 2023, M: 2, D: 28},  // Feb 28, common year
	{Y: 2024, M: 2, D: 28},  // Feb 28, leap year
	{Y: 2024, M: 2, D: 29},  // leap day
	{Y: 2021, M: 12, D: 31}, // year end
	{Y: 2022, M: 1, D: 1},   // year start
}

var c17Roundings = []string{"", "5m", "10m", "12m", "15m", "20m", "30m", "60m"}

// date selection: default, --today, --yesterday, --tomorrow, explicit --date <today>
var c17Selections = []string{"", "today", "yesterday", "tomorrow", "explicit"}

// record layouts, relative to "today"
func c17Layout(k int, today int) string {
	d := func(off int) string { return sm.DateLit{Date: sm.FromDayNumber(today + off)}.String() }
	switch k {
	case 0:
		return ""
	case 1:
		return d(0) + "\n    1h\n"
	case 2:
		return d(0) + "\n    1h\n    0:00 - ? #t\n"
	case 3:
		return d(-1) + "\n    0:00 - ?\n"
	case 4:
		// (not in chronological order: today's record stands behind a later-dated one)
		return d(-1) + "\n    23:00 - ?\n\n" + d(1) + "\n    1h\n\n" + d(0) + "\n    0:00-?\n"
	case 5:
		return d(-1) + "\n    2h\n"
	case 6:
		return d(0) + "\n    30m\n\n" + d(1) + "\n    <0:00 - ?\n"
	case 7:
		return d(-2) + "\n    0:00 - ?\n\n" + d(-1) + "\n"
	}
	return ""
}

const c17Layouts = 8

var c17Cmds = []string{"start", "stop", "switch"}

type c17Case struct {
	Day    string `json:"today"`
	Minute int    `json:"minute"`
	Op     Op     `json:"op"`
	Layout int    `json:"layout"`
	File   fw.Txt `json:"file"`
	Fam    string `json:"fam"`
}

func c17DayCount(t fw.Tier) int {
	if t == fw.Thorough {
		return len(c17Days)
	}
	return 4
}

func init() {
	fw.Register(&fw.Check{
		ID:    "C17",
		Title: "Clock-relative behaviour is right at every minute of the day",
		Rule: "EVERY minute 0..1439 of the clock x calendar days (quick: an ordinary day and the day after a leap day; thorough: also month end, Feb 28 common/leap, Feb 29, Dec 31, Jan 1) x roundings {none,5,10,12,15,20,30,60} " +
			"(as --round and, on a stride, as default_rounding; on another stride with time_convention = 12h) x date selection {default, --today, --yesterday, --tomorrow, explicit --date} x 8 record layouts (no file content, today without/with open range, yesterday's open range, both, yesterday closed, tomorrow's open range, open range two days ago) x {start, stop, switch}; " +
			"plus `klog total --now` at every minute x 6 layouts (open range today/yesterday/older/tomorrow, starting before and after now), each followed by `klog today --now --follow` over refreshes at +0, +1 and +61 minutes (possibly past midnight): every refresh shows the total of ITS instant or refuses. A case = (day, minute, command line, layout); all distinct.",
		Assumptions: []string{
			"model (cmdmodel.go): rounded = nearest multiple, ties up (may reach 24:00); relative to the target date +24h for yesterday's record and -24h for tomorrow's; representable iff within <0:00 .. 23:59>; stop falls back to the previous day only when no date/time was given and today has no record; an unrepresentable time must be refused with an error, never crash, never write another time",
			"every case runs the command struct on the real context (clidrv.Exec); every 97th case also goes through klog.Run with real flag decoding",
			"the written time is compared by value through the reference parser (notation is C11's subject)",
		},
		Units: func(t fw.Tier) int { return c17DayCount(t) * 48 * 2 },
		RunUnit: func(c *fw.Ctx, unit int) {
			half := c17DayCount(c.Tier) * 48
			if unit >= half {
				u := unit - half
				c17NowUnit(c, c17Days[u/48], (u%48)*30)
				return
			}
			c17Unit(c, c17Days[unit/48], (unit%48)*30)
		},
		Replay: func(c *fw.Ctx, raw json.RawMessage) {
			var cs c17Case
			if json.Unmarshal(raw, &cs) != nil {
				return
			}
			d, _ := sm.ParseDate(cs.Day)
			x := newC17(c)
			if cs.Fam == "now" {
				x.now(d.Date, cs.Minute, cs.Layout)
				return
			}
			x.one(d.Date, cs.Minute, cs.Op, cs.Layout, true)
		},
	})
}

type c17X struct {
	c         *fw.Ctx
	dir, home string
	n         int
}

func newC17(c *fw.Ctx) *c17X {
	x := &c17X{c: c, dir: filepath.Join(fw.Scratch(), "c17"), home: clidrv.Home("home")}
	os.MkdirAll(x.dir, 0755)
	return x
}

func c17Unit(c *fw.Ctx, day sm.Date, minute0 int) {
	x := newC17(c)
	for minute := minute0; minute < minute0+30; minute++ {
		for _, rnd := range c17Roundings {
			for _, sel := range c17Selections {
				for lay := 0; lay < c17Layouts; lay++ {
					for _, kind := range c17Cmds {
						o := Op{Kind: kind, Round: rnd}
						switch sel {
						case "explicit":
							o.Date = sm.DateLit{Date: day}.String()
						default:
							o.Rel = sel
						}
						x.n++
						x.one(day, minute, o, lay, x.n%97 == 0)
					}
				}
			}
		}
		if c.Expired() || c.ViolationCount() > 3 {
			return
		}
	}
}

func (x *c17X) one(day sm.Date, minute int, o Op, lay int, viaCLI bool) {
	c := x.c
	today := sm.DayNumber(day)
	before := c17Layout(lay, today)
	env := CmdEnv{Today: day, NowMins: minute}
	if o.Round != "" && (minute+lay)%7 == 0 && !viaCLI {
		// the same rounding as a configured default instead of the flag
		env.DefaultRound, o.Round = o.Round, ""
	}
	if (minute+2*lay)%5 == 0 {
		// the written time in the 12-hour convention (the value must be the same)
		env.TimeConv = "12h"
	}
	cs := func() c17Case {
		return c17Case{Day: sm.DateLit{Date: day}.String(), Minute: minute, Op: o, Layout: lay, File: fw.Txt(before), Fam: "cmd"}
	}
	path := filepath.Join(x.dir, "t.klg")
	os.WriteFile(path, []byte(before), 0644)
	ref := sm.ParseLenient(before)
	m := o.Apply(ref.Records, env)
	var r clidrv.Result
	if viaCLI {
		r = RunOp(x.home, path, o, env)
	} else {
		r, _ = ExecOp(x.home, path, o, env)
	}
	after := clidrv.ReadFile(path)
	c.Eval(1)
	c.Nontrivial(fw.HashMix(fw.HashMix(fw.HashString(o.String()+env.DefaultRound), uint64(minute*16+lay)), uint64(today)))
	at := fmt.Sprintf("at %s %02d:%02d", sm.DateLit{Date: day}.String(), minute/60, minute%60)
	if r.Panicked {
		c.Violation("panic:"+o.Kind+":"+fw.PanicSite(r.Stack), cs(), fmt.Sprintf("`klog %s` %s panicked on %q: %v\n%s", o.String(), at, before, r.PanicVal, r.Stack))
		return
	}
	if !m.OK {
		c.Outcome("refused:" + o.Kind)
		if r.Code == 0 || after != before {
			c.Violation("should-fail:"+o.Kind, cs(), fmt.Sprintf("`klog %s` %s must fail (%s) and leave the file untouched, but exit=%d.\nbefore: %q\nafter:  %q", o.String(), at, m.Why, r.Code, before, after))
			return
		}
		if strings.TrimSpace(r.Err) == "" {
			c.Violation("no-error-message:"+o.Kind, cs(), fmt.Sprintf("`klog %s` %s failed (exit %d) without an error message", o.String(), at, r.Code))
		}
		return
	}
	c.Outcome("ok:" + o.Kind)
	if r.Code != 0 {
		c.Violation("should-succeed:"+o.Kind, cs(), fmt.Sprintf("`klog %s` %s failed (exit %d: %s) but the required time is representable.\nfile: %q\nexpected:\n%s", o.String(), at, r.Code, strings.TrimSpace(r.Err), before, valueCanon(m.Records)))
		return
	}
	refAfter := sm.ParseLenient(after)
	if refAfter.Verdict != sm.Valid || !matchesModel(refAfter.Records, m) {
		c.Violation("wrong-time:"+o.Kind, cs(), fmt.Sprintf("`klog %s` %s wrote\n%q\nwhich reads as\n%sbut the clock, rounding and target date require\n%s", o.String(), at, after, valueCanon(refAfter.Records), valueCanon(m.Records)))
		return
	}
	c.Sample(func() any { return map[string]any{"case": cs(), "after": after} })
	// seconds within the minute: the statement quantifies over wall-clock MINUTES, so a reading of hh:mm:40 may be
	// taken as hh:mm (klog cuts the seconds off) or as the next minute - but as ONE consistent instant: the result
	// must be what the model gives for (day, hh:mm) or for (day, hh:mm) + 1 minute (on the next day after 23:59).
	if minute%360 == 359 || minute == 0 {
		env40 := env
		env40.Secs = 40
		os.WriteFile(path, []byte(before), 0644)
		r40, _ := ExecOp(x.home, path, o, env40)
		after40 := clidrv.ReadFile(path)
		envNext := env
		envNext.NowMins++
		if envNext.NowMins == 1440 {
			envNext.NowMins, envNext.Today = 0, sm.FromDayNumber(today+1)
		}
		ok40 := false
		for _, mm := range []ModelResult{m, o.Apply(ref.Records, envNext)} {
			if !mm.OK {
				ok40 = ok40 || (r40.Code != 0 && after40 == before)
				continue
			}
			if ra := sm.ParseLenient(after40); r40.Code == 0 && ra.Verdict == sm.Valid && matchesModel(ra.Records, mm) {
				ok40 = true
			}
		}
		if r40.Panicked || !ok40 {
			c.Violation("seconds-inconsistent:"+o.Kind, cs(), fmt.Sprintf("`klog %s` %s:40 (forty seconds into the minute; exit %d, panic %v) wrote\n%q\nwhich is neither what the clock reading %02d:%02d requires nor what the following minute requires", o.String(), at, r40.Code, r40.PanicVal, after40, minute/60, minute%60))
			return
		}
		c.Count("seconds_cases", 1)
	}
}

// ---- total --now at every minute

func c17NowLayout(k, today int) string {
	d := func(off int) string { return sm.DateLit{Date: sm.FromDayNumber(today + off)}.String() }
	switch k {
	case 0:
		return d(0) + "\n    1h\n    12:00 - ?\n    -15m break\n" // (the open range is not the last entry)
	case 1:
		return d(-1) + "\n    12:00 - ?\n\n" + d(0) + "\n    <23:30 - ? x\n"
	case 2:
		return d(-1) + "\n    0:30> - ?\n"
	case 3:
		return d(-2) + "\n    8:00 - ?\n"
	case 4:
		return d(1) + "\n    <23:00 - ?\n"
	}
	return d(0) + "\n    5m\n    0:00-?\n\n" + d(-1) + " (8h!)\n    23:59> - ?\n"
}

func c17NowUnit(c *fw.Ctx, day sm.Date, minute0 int) {
	x := newC17(c)
	for minute := minute0; minute < minute0+30; minute++ {
		for lay := 0; lay < 6; lay++ {
			x.now(day, minute, lay)
		}
	}
}

func (x *c17X) now(day sm.Date, minute, lay int) {
	c := x.c
	today := sm.DayNumber(day)
	text := c17NowLayout(lay, today)
	cs := c17Case{Day: sm.DateLit{Date: day}.String(), Minute: minute, Layout: lay, File: fw.Txt(text), Fam: "now"}
	path := filepath.Join(x.dir, "n.klg")
	os.WriteFile(path, []byte(text), 0644)
	ref := sm.ParseLenient(text)
	closed, ok, _ := sm.CloseAt(ref.Records, today, minute)
	opts := clidrv.Opts{Now: dateAt(day.Y, day.M, day.D, minute/60, minute%60)}
	cmd := &cli.Total{NowArgs: cliutil.NowArgs{Now: true}, DecimalArgs: cliutil.DecimalArgs{Decimal: true}, NoStyleArgs: cliutil.NoStyleArgs{NoStyle: true}, WarnArgs: cliutil.WarnArgs{NoWarn: true}, InputFilesArgs: fileArgs(path)}
	r := clidrv.Exec(x.home, opts, cmd)
	x.n++
	if x.n%97 == 0 {
		r2 := clidrv.Run(x.home, opts, "total", "--now", "--decimal", "--no-style", "--no-warn", path)
		if r2.Stdout != r.Stdout || r2.Code != r.Code {
			c.Violation("cli-differs", cs, fmt.Sprintf("`klog total --now` through the CLI differs: %q (exit %d) vs %q (exit %d)", r2.Stdout, r2.Code, r.Stdout, r.Code))
			return
		}
	}
	c.Eval(1)
	c.Nontrivial(fw.HashMix(uint64(today*2000+minute), uint64(lay+77)))
	at := fmt.Sprintf("at %s %02d:%02d", cs.Day, minute/60, minute%60)
	if r.Panicked {
		c.Violation("panic:total-now:"+fw.PanicSite(r.Stack), cs, fmt.Sprintf("`klog total --now` %s panicked: %v\n%s", at, r.PanicVal, r.Stack))
		return
	}
	// the other evaluation commands under --now: the same refusal / the same total
	for _, oc := range []struct {
		name string
		cmd  clidrv.Runner
	}{
		{"report --now", &cli.Report{AggregateBy: "day", NowArgs: cliutil.NowArgs{Now: true}, DecimalArgs: cliutil.DecimalArgs{Decimal: true}, NoStyleArgs: cliutil.NoStyleArgs{NoStyle: true}, WarnArgs: cliutil.WarnArgs{NoWarn: true}, InputFilesArgs: fileArgs(path)}},
		{"tags --now", &cli.Tags{NowArgs: cliutil.NowArgs{Now: true}, DecimalArgs: cliutil.DecimalArgs{Decimal: true}, NoStyleArgs: cliutil.NoStyleArgs{NoStyle: true}, WarnArgs: cliutil.WarnArgs{NoWarn: true}, InputFilesArgs: fileArgs(path)}},
		{"json --now", &cli.Json{NowArgs: cliutil.NowArgs{Now: true}, InputFilesArgs: fileArgs(path)}},
	} {
		ro := clidrv.Exec(x.home, opts, oc.cmd)
		if ro.Panicked {
			c.Violation("panic:"+oc.name+":"+fw.PanicSite(ro.Stack), cs, fmt.Sprintf("`klog %s` %s panicked: %v\n%s", oc.name, at, ro.PanicVal, ro.Stack))
			return
		}
		if !ok && ro.Code == 0 {
			c.Violation("now-not-refused", cs, fmt.Sprintf("`klog %s` %s must refuse (an open range cannot be closed at that instant) but printed %q\nfile: %q", oc.name, at, ro.Stdout, text))
			return
		}
		if ok && ro.Code != 0 {
			c.Violation("now-refused-wrongly", cs, fmt.Sprintf("`klog %s` %s failed (exit %d %s) although every open range can be closed\nfile: %q", oc.name, at, ro.Code, ro.Err, text))
			return
		}
		if ok && oc.name == "report --now" {
			lines := strings.Split(strings.TrimRight(ro.Stdout, "\n"), "\n")
			if g := strings.TrimSpace(lines[len(lines)-1]); g != strconv.Itoa(sm.Total(closed)) {
				c.Violation("now-total", cs, fmt.Sprintf("`klog report --now` %s ends with grand total %q, expected %d minutes\nfile: %q", at, g, sm.Total(closed), text))
				return
			}
		}
	}
	if !ok {
		c.Outcome("now-refused")
		if r.Code == 0 {
			c.Violation("now-not-refused", cs, fmt.Sprintf("`klog total --now` %s must refuse (an open range cannot be closed at that instant) but printed %q\nfile: %q", at, r.Stdout, text))
		}
		return
	}
	c.Outcome("now-ok")
	want := sm.Total(closed)
	got := -1 << 40
	if strings.HasPrefix(r.Stdout, "Total: ") {
		if n, err := strconv.Atoi(strings.TrimSpace(strings.SplitN(strings.TrimPrefix(r.Stdout, "Total: "), "\n", 2)[0])); err == nil {
			got = n
		}
	}
	if r.Code != 0 || got != want {
		c.Violation("now-total", cs, fmt.Sprintf("`klog total --now` %s printed %q (exit %d), expected a total of %d minutes\nfile: %q", at, r.Stdout, r.Code, want, text))
		return
	}
	// the clock advances under a running `klog today --now --follow`: every refresh evaluates at ITS instant
	// (refreshes at +0, +1 and +61 minutes; the last two may lie on the next day)
	deltas := []int{0, 1, 61}
	var ticks []gotime.Time
	for _, d := range deltas {
		ticks = append(ticks, opts.Now.Add(gotime.Duration(d)*gotime.Minute))
	}
	fr := clidrv.Exec(x.home, clidrv.Opts{Now: ticks[0], TickTimes: ticks}, &cli.Today{NowArgs: cliutil.NowArgs{Now: true}, Follow: true,
		DecimalArgs: cliutil.DecimalArgs{Decimal: true}, NoStyleArgs: cliutil.NoStyleArgs{NoStyle: true}, WarnArgs: cliutil.WarnArgs{NoWarn: true}, InputFilesArgs: fileArgs(path)})
	if fr.Panicked {
		c.Violation("panic:today-follow:"+fw.PanicSite(fr.Stack), cs, fmt.Sprintf("`klog today --now --follow` %s panicked: %v\n%s", at, fr.PanicVal, fr.Stack))
		return
	}
	parts := strings.Split(fr.Stdout, "\033[H\033[J")
	if len(parts) < 2 {
		c.Violation("follow-output", cs, fmt.Sprintf("`klog today --now --follow` %s printed no refresh: %q", at, fr.Stdout))
		return
	}
	parts = parts[1:]
	for k, d := range deltas {
		dayK, minK := today+(minute+d)/1440, (minute+d)%1440
		closedK, okK, _ := sm.CloseAt(ref.Records, dayK, minK)
		if !okK {
			// this refresh must refuse and end the command
			if fr.Code == 0 || len(parts) != k+1 {
				c.Violation("follow-not-refused", cs, fmt.Sprintf("`klog today --now --follow` %s: at refresh %d (+%d min) an open range can no longer be closed; the command must stop with an error (exit %d, %d refreshes shown)", at, k, d, fr.Code, len(parts)))
			}
			c.Outcome("follow-refused")
			return
		}
		if k >= len(parts) {
			c.Violation("follow-output", cs, fmt.Sprintf("`klog today --now --follow` %s stopped after %d refreshes (exit %d %s)", at, len(parts), fr.Code, fr.Err))
			return
		}
		wantK, gotK := sm.Total(closedK), -1<<40
		for _, l := range strings.Split(parts[k], "\n") {
			f := strings.Fields(l)
			if len(f) >= 2 && f[0] == "All" {
				if n, err := strconv.Atoi(f[1]); err == nil {
					gotK = n
				}
			}
		}
		if gotK != wantK {
			c.Violation("follow-total", cs, fmt.Sprintf("`klog today --now --follow` %s: refresh %d (+%d min) shows All = %d, expected %d minutes\n%s", at, k, d, gotK, wantK, parts[k]))
			return
		}
	}
	c.Outcome("follow-ok")
	_ = docgen.DefaultLayout
}
