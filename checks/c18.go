//go:build verif

package checks

import (
	"encoding/json"
	"fmt"
	"strings"
	"unicode/utf8"

	"github.com/jotaen/klog/klog/app/cli"
	cliutil "github.com/jotaen/klog/klog/app/cli/util"

	"klogverif/clidrv"
	"klogverif/docgen"
	"klogverif/fw"
	sm "klogverif/specmodel"
)

// C18 — colour and styling never change what is printed.

func c18Docs() []string {
	var docs []string
	for i, s := range docgen.FBShapes() {
		d := s
		d.Layout = docgen.DefaultLayout
		if i%3 == 1 {
			d.Layout = docgen.Layout{EOL: 1, Between: []string{"", ""}, FinalNL: true}
		}
		docs = append(docs, d.Text())
	}
	docs = append(docs,
		"2022-06-15 (8h!)\nTöday #日本語 #ünï=\"wert 1\" #x='q\"z'\n    8:00 - 12:00 #日本語 wide 中文字幕\n    -45m lunch #break=long\n    13:00 - ? #open\n\n2022-06-14 (7h30m!)\n    120h59m #big=1\n    -200h #neg\n    <23:00 - 0:30> shifted #日本語\n",
		"2022-06-15\n    1h combining é́ #a\n    2h #a=1 #a=2 #a='1'\n    3h #A #b=_-_\n\n2022-06-01 (-2h!)\n#tag-only #ＴＡＧ #𝒳\n    -1m\n\n2021-12-31\nyear end\n    23:00 - 1:00> #night\n\n2021-12-30\n",
		"2022-06-13\n    999h\n\n2022-06-14\n    -999h59m\n\n2022-06-15\n    0m\n    8:00-8:00\n",
		"2020-02-29\n    10h #leap\n\n2020-03-01 (1m!)\n    10m #leap #march\n\n2020-12-28\n    1h #w53\n\n2021-01-03\n\n2021-01-04 (100h!)\n    1h #w1\n",
		"2022/06/15\n    9:00am - 12:00pm #ampm\n    12:00pm-?\n\n2022/06/14\n    <11:00pm - 1:00am #ampm\n        second line #deep=\"x y\"\n",
		"2022-06-15\n    1h #ort=zürich #名=値\n    2h #ort=\"köln süd\" #名='値 2'\n    3h #ort=a\n\n2022-06-14\n#ort=zürich\n    30m #ß=ẞ\n",
		"2022-06-15\n",
		"2022-06-15 (8h!)\n",
		"2022-06-15\ntrailing blanks  \n    1h work  \n    10h30m  \n    8:00 - 9:00 \t\n        continued \n",
	)
	for _, d := range docs {
		if r := sm.Parse(d); r.Verdict != sm.Valid {
			harnessFatal("C18 document is not a valid file (%s, line %d): %q", r.Rule, r.Line, d)
		}
	}
	// files with syntax errors: what klog then prints is the error report, and styling must not change its text either
	docs = append(docs,
		"2022-06-15\n    8:00 - 9:00\n    foo bar\n",
		"2022-06-15 (8h!\nsummary\n    1h\n\n2022-13-01\n    9:00 - ? a long summary text with #tags and ünï中 characters that makes the quoted line quite long indeed\n    9:30 - ?\n",
		"2022-06-15\n     1h wrong indentation\n\nnot a date at all\n    1h\n",
	)
	return docs
}

var c18Commands = [][]string{
	{"print"}, {"print", "--with-totals"}, {"print", "--sort", "asc", "--with-totals"},
	{"total"}, {"total", "--diff"}, {"total", "--diff", "--now"}, {"total", "--decimal", "--diff"},
	{"report"}, {"report", "--diff"}, {"report", "--fill"}, {"report", "--chart"}, {"report", "--diff", "--chart", "--fill"},
	{"report", "--aggregate", "week"}, {"report", "--aggregate", "week", "--diff", "--fill"}, {"report", "--aggregate", "w", "--chart"},
	{"report", "--aggregate", "month", "--diff"}, {"report", "--aggregate", "month", "--fill", "--chart"},
	{"report", "--aggregate", "quarter", "--diff", "--chart"}, {"report", "--aggregate", "q", "--fill"},
	{"report", "--aggregate", "year", "--diff", "--chart", "--fill"}, {"report", "--aggregate", "y", "--decimal"},
	{"report", "--now", "--diff"},
	{"tags"}, {"tags", "-v"}, {"tags", "-c"}, {"tags", "-v", "-c"}, {"tags", "-v", "-c", "--decimal"},
	{"today"}, {"today", "--diff"}, {"today", "--diff", "--now"}, {"today", "--now", "--decimal"},
}

type c18Case struct {
	Doc  int      `json:"doc"`
	Cmd  []string `json:"command"`
	Cfg  string   `json:"config"`
	Fam  string   `json:"fam,omitempty"`
	Text fw.Txt   `json:"text,omitempty"`
}

type c18Config struct {
	name   string
	config string
	env    map[string]string
	flags  []string
	plain  bool
}

var c18Configs = []c18Config{
	{name: "--no-style", flags: []string{"--no-style"}, plain: true},
	{name: "NO_COLOR=1", env: map[string]string{"NO_COLOR": "1"}, plain: true},
	{name: "colour_scheme=no_colour", config: "colour_scheme = no_colour\n", plain: true},
	{name: "default(dark)"},
	{name: "colour_scheme=dark", config: "colour_scheme = dark\n"},
	{name: "colour_scheme=light", config: "colour_scheme = light\n"},
	{name: "colour_scheme=basic", config: "colour_scheme = basic\n"},
	{name: "colour_scheme=light+--no-style", config: "colour_scheme = light\n", flags: []string{"--no-style"}, plain: true},
}

func init() {
	fw.Register(&fw.Check{
		ID:    "C18",
		Title: "Colour and styling never change what is printed",
		Rule: fmt.Sprint(len(c18Docs())) + " documents (all structural shapes plus Unicode summaries and tags with wide, combining and astral characters, quoted tag values, negative / >99h / zero totals, 12-hour times, empty records) x " + fmt.Sprint(len(c18Commands)) + " command lines " +
			"(print, print --with-totals, total, report x 5 aggregations x fill/diff/chart/decimal/now, tags -v -c, today --diff --now) x 8 styling configurations " +
			"({--no-style, NO_COLOR, colour_scheme=no_colour} unstyled; {default, dark, light, basic} styled; light+--no-style), all through the complete CLI; " +
			"plus BULK (command structs on the real context): ev = every EV document of C06 (clock-relative dates x should-totals x <=2 (thorough 3) extreme/narrow/wide/open entries, optional second record), " +
			"tagtab = one record with two entries whose summaries are every sequence of <=2 tags from a " + fmt.Sprint(len(c18TagMenu)) + "-tag menu (ASCII, wide, combining, astral names; plain, quoted, non-ASCII values), " +
			"each x " + fmt.Sprint(len(c18BulkCmds)) + " commands x {--no-style, dark, light, basic}. A case = (document, command, configuration); all distinct.",
		Assumptions: []string{
			"own SGR stripper: ESC [ digits/semicolons m; any other ESC byte left after stripping is a violation",
			"table rows are compared by number of characters (runes) after stripping, as the statement says 'visible characters'",
			"the clock is fixed at 2022-06-15 12:00 (a date several documents use, so --now and today have open ranges to close)",
		},
		Units: func(t fw.Tier) int { return len(c18Docs()) + len(planSpans(c18BulkSizes(t), c18Chunk)) },
		RunUnit: func(c *fw.Ctx, unit int) {
			if unit < len(c18Docs()) {
				for _, cmd := range c18Commands {
					c18Run(c, unit, cmd)
				}
				return
			}
			sp := planSpans(c18BulkSizes(c.Tier), c18Chunk)[unit-len(c18Docs())]
			for i := sp.lo; i < sp.hi && !c.Expired(); i++ {
				c18Bulk(c, sp.fam, i)
			}
		},
		Replay: func(c *fw.Ctx, raw json.RawMessage) {
			var cs c18Case
			if json.Unmarshal(raw, &cs) == nil {
				if cs.Fam != "" {
					c18Bulk(c, indexOf(c18BulkNames, cs.Fam), cs.Doc)
				} else {
					c18Run(c, cs.Doc, cs.Cmd)
				}
			}
		},
	})
}

// stripSGR removes ESC [ params m sequences.
func stripSGR(s string) string {
	var b strings.Builder
	for i := 0; i < len(s); {
		if s[i] == 0x1b && i+1 < len(s) && s[i+1] == '[' {
			j := i + 2
			for j < len(s) && ((s[j] >= '0' && s[j] <= '9') || s[j] == ';') {
				j++
			}
			if j < len(s) && s[j] == 'm' {
				i = j + 1
				continue
			}
		}
		b.WriteByte(s[i])
		i++
	}
	return b.String()
}

func c18Run(c *fw.Ctx, doc int, cmd []string) {
	text := c18Docs()[doc]
	dir := fw.Scratch()
	home := clidrv.Home("home")
	path := clidrv.WriteFile(dir, "c18.klg", text)
	var plain string
	var plainCode int
	havePlain := false
	for _, cfg := range c18Configs {
		cs := c18Case{Doc: doc, Cmd: cmd, Cfg: cfg.name}
		c.Eval(1)
		c.Nontrivial(fw.HashMix(fw.HashString(strings.Join(cmd, " ")+cfg.name), uint64(doc)))
		args := append(append(append([]string{}, cmd...), cfg.flags...), path)
		r := clidrv.Run(home, clidrv.Opts{Now: fixedNow, ConfigFile: cfg.config, Env: cfg.env}, args...)
		if r.Panicked {
			c.Violation("panic:"+fw.PanicSite(r.Stack), cs, fmt.Sprintf("`klog %s` (%s) panicked: %v\n%s", strings.Join(cmd, " "), cfg.name, r.PanicVal, r.Stack))
			return
		}
		if r.ConfigErr != "" {
			harnessFatal("C18 config rejected: %s", r.ConfigErr)
		}
		out := r.Stdout + "\x00ERR\x00" + r.Err
		// (the --no-style FLAG is applied by the command itself, i.e. after the input has been read: for a file with
		// syntax errors the report is rendered before that and keeps the configured scheme. The statement compares with
		// "the output with styling disabled", so for such files the flag configurations count as styled ones.)
		isPlain := cfg.plain && !(r.Code != 0 && len(cfg.flags) > 0 && r.Stdout == "")
		if isPlain && strings.ContainsRune(out, 0x1b) {
			c.Violation("escape-in-unstyled", cs, fmt.Sprintf("output with styling disabled (%s) contains an escape sequence:\n%q", cfg.name, out))
			return
		}
		stripped := stripSGR(out)
		if strings.ContainsRune(stripped, 0x1b) {
			c.Violation("non-sgr-escape", cs, fmt.Sprintf("styled output contains an escape sequence that is not SGR:\n%q", out))
			return
		}
		if !havePlain {
			plain, plainCode, havePlain = stripped, r.Code, true
			// tabular outputs: all rows have the same number of visible characters
			if cmd[0] == "report" || cmd[0] == "tags" || cmd[0] == "today" {
				if why := c18Table(r.Stdout); why != "" {
					c.Violation("table-width", cs, fmt.Sprintf("`klog %s`: %s\n%s", strings.Join(cmd, " "), why, r.Stdout))
					return
				}
			}
			c.Sample(func() any { return map[string]any{"case": cs, "output": r.Stdout} })
			continue
		}
		if stripped != plain || r.Code != plainCode {
			c.Violation("styling-changes-text", cs, fmt.Sprintf("`klog %s` with %s differs from the unstyled output beyond SGR sequences (exit %d vs %d).\nunstyled:\n%q\nstripped:\n%q\nraw:\n%q",
				strings.Join(cmd, " "), cfg.name, r.Code, plainCode, plain, stripped, out))
			return
		}
		if cmd[0] == "report" || cmd[0] == "tags" || cmd[0] == "today" {
			if why := c18Table(stripSGR(r.Stdout)); why != "" {
				c.Violation("table-width", cs, fmt.Sprintf("`klog %s` (%s): %s", strings.Join(cmd, " "), cfg.name, why))
				return
			}
		}
	}
	c.Outcome(cmd[0])
}

// c18Table: every row of the table part (up to the first empty line / warning block) has the same rune count.
func c18Table(out string) string {
	w := -1
	for i, l := range strings.Split(out, "\n") {
		if l == "" || strings.HasPrefix(l, "[WARNING]") {
			break
		}
		n := utf8.RuneCountInString(l)
		if w == -1 {
			w = n
		} else if n != w {
			return fmt.Sprintf("row %d has %d visible characters, the first row has %d", i+1, n, w)
		}
	}
	return ""
}

// ---- BULK: the same oracle on large enumerated document families, command structs run directly (clidrv.Exec)

const c18Chunk = 1500

var c18BulkNames = []string{"ev", "tagtab"}

var c18TagMenu = []string{"#a", "#日本語", "#ünï=\"wert 1\"", "#x='q\"z'", "#a=1", "#𝒳", "#ＴＡＧ=値", "#long_tag-name=long-value_123", "#é́", "#b=\"\"", "#t  ", "#u\t"} // (the last two: a summary that ends in blanks when the tag comes last)

func c18TagSeqs() int { return 1 + len(c18TagMenu) + len(c18TagMenu)*len(c18TagMenu) }

func c18TagSeq(k int) string {
	n := len(c18TagMenu)
	switch {
	case k == 0:
		return ""
	case k <= n:
		return " " + c18TagMenu[k-1]
	}
	k -= n + 1
	return " " + c18TagMenu[k/n] + " text " + c18TagMenu[k%n]
}

func c18BulkSizes(t fw.Tier) []int {
	return []int{c06EvCount(t), c18TagSeqs() * c18TagSeqs()}
}

func c18BulkDoc(t fw.Tier, fam, i int) string {
	if fam == 0 {
		return c06EvDoc(t, i)
	}
	n := c18TagSeqs()
	return "2022-06-15\n    1h" + c18TagSeq(i/n) + "\n    8:00 - 9:30" + c18TagSeq(i%n) + "\n"
}

type c18BulkCmd struct {
	name  string
	table bool
	mk    func(in cliutil.InputFilesArgs, noStyle bool) clidrv.Runner
}

var c18BulkCmds = func() []c18BulkCmd {
	ns := func(b bool) cliutil.NoStyleArgs { return cliutil.NoStyleArgs{NoStyle: b} }
	cmds := []c18BulkCmd{
		{"print", false, func(in cliutil.InputFilesArgs, b bool) clidrv.Runner {
			return &cli.Print{NoStyleArgs: ns(b), InputFilesArgs: in}
		}},
		{"print --with-totals", false, func(in cliutil.InputFilesArgs, b bool) clidrv.Runner {
			return &cli.Print{WithTotals: true, NoStyleArgs: ns(b), InputFilesArgs: in}
		}},
		{"total --diff --now", false, func(in cliutil.InputFilesArgs, b bool) clidrv.Runner {
			return &cli.Total{DiffArgs: cliutil.DiffArgs{Diff: true}, NowArgs: cliutil.NowArgs{Now: true}, NoStyleArgs: ns(b), InputFilesArgs: in}
		}},
		{"total --diff --decimal", false, func(in cliutil.InputFilesArgs, b bool) clidrv.Runner {
			return &cli.Total{DiffArgs: cliutil.DiffArgs{Diff: true}, DecimalArgs: cliutil.DecimalArgs{Decimal: true}, NoStyleArgs: ns(b), InputFilesArgs: in}
		}},
		{"tags -v -c", true, func(in cliutil.InputFilesArgs, b bool) clidrv.Runner {
			return &cli.Tags{Values: true, Count: true, NoStyleArgs: ns(b), InputFilesArgs: in}
		}},
		{"tags", true, func(in cliutil.InputFilesArgs, b bool) clidrv.Runner {
			return &cli.Tags{NoStyleArgs: ns(b), InputFilesArgs: in}
		}},
		{"today --diff --now", true, func(in cliutil.InputFilesArgs, b bool) clidrv.Runner {
			return &cli.Today{DiffArgs: cliutil.DiffArgs{Diff: true}, NowArgs: cliutil.NowArgs{Now: true}, NoStyleArgs: ns(b), InputFilesArgs: in}
		}},
		{"today --diff", true, func(in cliutil.InputFilesArgs, b bool) clidrv.Runner {
			return &cli.Today{DiffArgs: cliutil.DiffArgs{Diff: true}, NoStyleArgs: ns(b), InputFilesArgs: in}
		}},
	}
	for _, agg := range []string{"day", "week", "month", "quarter", "year"} {
		agg := agg
		cmds = append(cmds, c18BulkCmd{"report --aggregate " + agg + " --diff --chart", true, func(in cliutil.InputFilesArgs, b bool) clidrv.Runner {
			return &cli.Report{AggregateBy: agg, Chart: true, DiffArgs: cliutil.DiffArgs{Diff: true}, NoStyleArgs: ns(b), InputFilesArgs: in}
		}})
	}
	cmds = append(cmds, c18BulkCmd{"report --fill --decimal", true, func(in cliutil.InputFilesArgs, b bool) clidrv.Runner {
		return &cli.Report{AggregateBy: "day", Fill: true, DecimalArgs: cliutil.DecimalArgs{Decimal: true}, NoStyleArgs: ns(b), InputFilesArgs: in}
	}})
	return cmds
}()

var c18BulkConfigs = []c18Config{
	{name: "--no-style", plain: true},
	{name: "default(dark)"},
	{name: "colour_scheme=light", config: "colour_scheme = light\n"},
	{name: "colour_scheme=basic", config: "colour_scheme = basic\n"},
}

func c18Bulk(c *fw.Ctx, fam, i int) {
	text := c18BulkDoc(c.Tier, fam, i)
	if r := sm.Parse(text); r.Verdict != sm.Valid {
		c.Outcome("bulk-invalid-doc") // EV: two open ranges in one record
		return
	}
	dir := fw.Scratch()
	home := clidrv.Home("home")
	path := clidrv.WriteFile(dir, "c18b.klg", text)
	in := fileArgs(path)
	for _, bc := range c18BulkCmds {
		var plain string
		var plainCode int
		for k, cfg := range c18BulkConfigs {
			cs := c18Case{Doc: i, Cmd: []string{bc.name}, Cfg: cfg.name, Fam: c18BulkNames[fam], Text: fw.Txt(text)}
			c.Eval(1)
			c.Nontrivial(fw.HashMix(fw.HashString(bc.name+cfg.name+c18BulkNames[fam]), uint64(i)))
			r := clidrv.Exec(home, clidrv.Opts{Now: fixedNow, ConfigFile: cfg.config}, bc.mk(in, cfg.plain))
			if r.Panicked {
				c.Violation("panic:"+fw.PanicSite(r.Stack), cs, fmt.Sprintf("`klog %s` (%s) panicked: %v\n%s", bc.name, cfg.name, r.PanicVal, r.Stack))
				return
			}
			out := r.Stdout + "\x00ERR\x00" + r.Err
			if cfg.plain && strings.ContainsRune(out, 0x1b) {
				c.Violation("escape-in-unstyled", cs, fmt.Sprintf("output with styling disabled (%s) contains an escape sequence:\n%q", cfg.name, out))
				return
			}
			stripped := stripSGR(out)
			if strings.ContainsRune(stripped, 0x1b) {
				c.Violation("non-sgr-escape", cs, fmt.Sprintf("styled output contains an escape sequence that is not SGR:\n%q", out))
				return
			}
			if k == 0 {
				plain, plainCode = stripped, r.Code
			} else if stripped != plain || r.Code != plainCode {
				c.Violation("styling-changes-text", cs, fmt.Sprintf("`klog %s` with %s differs from the unstyled output beyond SGR sequences (exit %d vs %d).\nunstyled:\n%q\nstripped:\n%q", bc.name, cfg.name, r.Code, plainCode, plain, stripped))
				return
			}
			if bc.table && r.Code == 0 {
				if why := c18Table(stripSGR(r.Stdout)); why != "" {
					c.Violation("table-width", cs, fmt.Sprintf("`klog %s` (%s): %s\n%s", bc.name, cfg.name, why, stripSGR(r.Stdout)))
					return
				}
			}
		}
	}
	c.Outcome("bulk-" + c18BulkNames[fam])
}
