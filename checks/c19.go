//go:build verif

package checks

import (
	"encoding/json"
	"fmt"
	"os"
	"path/filepath"
	"sort"
	"strings"
	gotime "time"

	"github.com/jotaen/klog/klog/verifrt/vrt"

	"klogverif/clidrv"
	"klogverif/fw"
	sm "klogverif/specmodel"
)

// C19 — the bookmark database behaves as a persistent name-to-file map.
// Explicit-state exploration of the full state graph: a state is the content of
// bookmarks.json; every (state, operation) pair is executed through the real CLI.

type c19Target struct {
	rel   string // file name inside the scratch directory
	total string // what `klog total` prints for it ("" = file does not exist)
}

var c19Targets = []c19Target{
	{"plain.klg", "1h"},
	{"with space, 'quote\" and ünï-中.klg", "2h"},
	{"missing.klg", ""},
}

// model keys (normalised names) and the spellings a user may type for them
var c19Keys = []string{"default", "a", "Zä b", "w/2@x", "A", "q\"x"}
var c19Spellings = map[string][]string{
	"default": {"", "@", "default", "@default"},
	"a":       {"a", "@a", "@@a"},
	"Zä b":    {"Zä b", "@Zä b"},
	"w/2@x":   {"w/2@x", "@w/2@x"}, // a name that looks like a relative path and contains the prefix character
	"A":       {"A", "@A"},
	"q\"x":    {"q\"x", "@q\"x"},
}

func c19Dims(tier fw.Tier) (keys []string, ntargets int) {
	if tier == fw.Thorough {
		return c19Keys, 3
	}
	return c19Keys[:4], 3
}

type c19State []int // per key: 0 = absent, 1.. = target index+1

func c19StateAt(i int, nkeys, ntargets int) c19State {
	s := make(c19State, nkeys)
	for k := 0; k < nkeys; k++ {
		s[k] = i % (ntargets + 1)
		i /= ntargets + 1
	}
	return s
}

func c19Count(tier fw.Tier) int {
	keys, nt := c19Dims(tier)
	n := 1
	for range keys {
		n *= nt + 1
	}
	return n
}

type c19Case struct {
	Fam   string   `json:"fam"`
	State int      `json:"state"`
	Tier  string   `json:"tier"`
	Ops   []string `json:"history"`
}

func init() {
	fw.Register(&fw.Check{
		ID:    "C19",
		Title: "The bookmark database behaves as a persistent name-to-file map",
		Rule: "explicit-state exploration of the FULL state graph of the bookmark database: states = all maps from the name keys {default, a, 'Zä b', 'w/2@x'} (quick) / {default, a, 'Zä b', 'w/2@x', A, 'q\"x'} (thorough; byte order and case-folded order of the names differ; one name looks like a relative path) to " +
			"{absent, a plain file (also by a relative spelling), a file with spaces, quotes and non-ASCII characters in its path, a missing file set with --force}: 4^4 = 256 / 4^6 = 4096 states; every state is built through the real CLI " +
			"along a shortest path from the empty database; in every state EVERY operation is executed: set x every spelling of every name (\"\", @, default, @default, a, @a, @@a, …) x every target (with and without --force), " +
			"unset x every spelling plus unknown names, the alias spellings (bk new / bookmark set / bk rm / bk clear -y / bk ls), clear --yes, clear answered y / n / EOF; observers list (also under reversed and rotated map iteration orders), info (--dir, --file), `klog total @name`, `klog total` (default bookmark) on every state. " +
			"A transition is non-trivial if it changes the state or is rejected; distinct by (state, operation).",
		Assumptions: []string{
			"model: a plain map from normalised name to absolute path; normalisation = strip leading '@'s, empty means default",
			"the file bookmarks.json is the entire state (every command re-reads it); validated on every transition: the bytes reached via (state, op) equal the bytes of the successor state built along its own shortest path",
			"every command goes through klog.Run (kong parsing included) in a scratch config folder",
		},
		Units: func(t fw.Tier) int { return c19Count(t) },
		RunUnit: func(c *fw.Ctx, unit int) {
			c19Explore(c, unit, c.Tier)
		},
		Replay: func(c *fw.Ctx, raw json.RawMessage) {
			var cs c19Case
			if json.Unmarshal(raw, &cs) == nil {
				c19Explore(c, cs.State, fw.Tier(cs.Tier))
			}
		},
		Finalize: func(r *fw.Result) {
			if r.Extra == nil {
				r.Extra = map[string]any{}
			}
			r.Extra["states"] = r.Counters["states"]
			r.Extra["traces_validated_against_impl"] = r.Counters["transitions"]
		},
	})
}

type c19Env struct {
	dir, home string
	paths     []string // absolute path per target
	rel       string   // a relative spelling of target 0
	hist      []string
}

func c19Setup(name string) *c19Env {
	dir := filepath.Join(fw.Scratch(), name)
	os.RemoveAll(dir)
	os.MkdirAll(dir, 0755)
	e := &c19Env{dir: dir, home: filepath.Join(dir, "cfg home")}
	os.MkdirAll(e.home, 0755)
	for _, t := range c19Targets {
		p := filepath.Join(dir, t.rel)
		if t.total != "" {
			os.WriteFile(p, []byte("2020-01-01\n    "+t.total+"\n"), 0644)
		}
		e.paths = append(e.paths, p)
	}
	wd, _ := os.Getwd()
	if r, err := filepath.Rel(wd, e.paths[0]); err == nil {
		e.rel = r
	} else {
		e.rel = e.paths[0]
	}
	return e
}

func (e *c19Env) run(args ...string) clidrv.Result {
	e.hist = append(e.hist, strings.Join(args, " "))
	return clidrv.Run(e.home, clidrv.Opts{Now: fixedNow}, args...)
}

func (e *c19Env) answer(in []string, args ...string) clidrv.Result {
	e.hist = append(e.hist, strings.Join(args, " ")+fmt.Sprintf(" <stdin %q>", in))
	return clidrv.Run(e.home, clidrv.Opts{Now: fixedNow, Stdin: in}, args...)
}

func (e *c19Env) db() string {
	b, err := os.ReadFile(filepath.Join(e.home, "bookmarks.json"))
	if err != nil {
		return "<absent>"
	}
	return string(b)
}

// build brings a fresh config folder into the given state through `bookmarks set`.
func (e *c19Env) build(keys []string, s c19State) string {
	os.Remove(filepath.Join(e.home, "bookmarks.json"))
	for k, t := range s {
		if t == 0 {
			continue
		}
		args := []string{"bookmarks", "set", "--force", e.paths[t-1]}
		if keys[k] != "default" {
			args = append(args, keys[k])
		}
		if r := e.run(args...); r.Code != 0 || r.Panicked {
			return fmt.Sprintf("building the state failed at `%s`: exit %d %s %v", strings.Join(args, " "), r.Code, r.Err, r.PanicVal)
		}
	}
	return ""
}

func modelOf(keys []string, s c19State, e *c19Env) map[string]string {
	m := map[string]string{}
	for k, t := range s {
		if t > 0 {
			m[keys[k]] = e.paths[t-1]
		}
	}
	return m
}

// sameListing: for a non-empty map the output must be exactly the sorted "@name -> path" lines; for an
// empty map any message without such a line will do (its wording is not part of the property).
func sameListing(out string, m map[string]string) bool {
	if len(m) == 0 {
		return !strings.Contains(out, " -> ")
	}
	return out == listing(m)
}

func listing(m map[string]string) string {
	if len(m) == 0 {
		return "There are no bookmarks defined yet.\n"
	}
	var names []string
	for n := range m {
		names = append(names, n)
	}
	sort.Strings(names)
	out := ""
	for _, n := range names {
		out += "@" + n + " -> " + m[n] + "\n"
	}
	return out
}

// dbMap reads bookmarks.json back with the strict JSON parser.
func dbMap(db string) (map[string]string, string) {
	m := map[string]string{}
	if db == "<absent>" || db == "" {
		return m, ""
	}
	v, err := sm.ParseJSON(db)
	if err != nil || v.Kind != sm.JArr {
		return nil, fmt.Sprintf("bookmarks.json is not a JSON array: %v", err)
	}
	for _, e := range v.Arr {
		n, ok1 := jstr(e, "name")
		p, ok2 := jstr(e, "path")
		if !ok1 || !ok2 {
			return nil, "bookmarks.json entry without name/path"
		}
		if _, dup := m[n]; dup {
			return nil, "duplicate name in bookmarks.json: " + n
		}
		m[n] = p
	}
	return m, ""
}

func sameMap(a, b map[string]string) bool {
	if len(a) != len(b) {
		return false
	}
	for k, v := range a {
		if b[k] != v {
			return false
		}
	}
	return true
}

func normName(n string) string {
	n = strings.TrimLeft(n, "@")
	if n == "" {
		return "default"
	}
	return n
}

func c19Explore(c *fw.Ctx, idx int, tier fw.Tier) {
	keys, nt := c19Dims(tier)
	state := c19StateAt(idx, len(keys), nt)
	e := c19Setup("c19")
	cs := func() c19Case { return c19Case{"bfs", idx, string(tier), append([]string{}, e.hist...)} }
	viol := func(sig, detail string) {
		c.Violation(sig, cs(), detail+"\nhistory: "+strings.Join(e.hist, " ; "))
	}
	if idx == 0 {
		// the very first command of a fresh account: neither the klog config folder nor its parent folders exist yet
		fresh := filepath.Join(e.dir, "fresh account", ".config", "klog")
		e.hist = append(e.hist, "<config folder "+fresh+" and its parents do not exist>", "bookmarks set "+e.paths[0]+" first")
		r := clidrv.Run(fresh, clidrv.Opts{Now: fixedNow}, "bookmarks", "set", e.paths[0], "first")
		db, _ := os.ReadFile(filepath.Join(fresh, "bookmarks.json"))
		if m, why := dbMap(string(db)); r.Panicked || r.Code != 0 || why != "" || !sameMap(m, map[string]string{"first": e.paths[0]}) {
			viol("fresh-config-folder", fmt.Sprintf("`bookmarks set` as the first command of a fresh account (no config folder yet): exit %d panic %v %s; bookmarks.json = %q (%s)", r.Code, r.PanicVal, r.Err, db, why))
			return
		}
		e.hist = e.hist[:0]
		// a long-running command (`klog today --follow @a`) resolves the bookmark anew at every refresh: the database
		// is changed under it (a -> other file, then a removed) by "another invocation"
		dbPath := filepath.Join(e.home, "bookmarks.json")
		var dbs []string
		for _, args := range [][]string{{"bookmarks", "set", e.paths[0], "a"}, {"bookmarks", "set", e.paths[1], "a"}, {"bookmarks", "unset", "a"}} {
			if r := e.run(args...); r.Code != 0 {
				viol("build", "cannot prepare the follow scenario: "+r.Err)
				return
			}
			b, _ := os.ReadFile(dbPath)
			dbs = append(dbs, string(b))
		}
		want, wantCode := "\033[2J", 0
		for k := range dbs {
			os.WriteFile(dbPath, []byte(dbs[k]), 0644)
			r := clidrv.Run(e.home, clidrv.Opts{Now: fixedNow}, "today", "--no-style", "--no-warn", "@a")
			want += "\033[H\033[J" + r.Stdout + "\nPress ^C to exit\n"
			if r.Code != 0 {
				wantCode = r.Code
				break
			}
		}
		os.WriteFile(dbPath, []byte(dbs[0]), 0644)
		ticks := []gotime.Time{fixedNow, fixedNow.Add(gotime.Minute), fixedNow.Add(2 * gotime.Minute)}
		e.hist = append(e.hist, "today --follow @a   (while the database changes: a -> second file, then a unset)")
		rf := clidrv.Run(e.home, clidrv.Opts{Now: fixedNow, TickTimes: ticks, OnTick: func(k int) { os.WriteFile(dbPath, []byte(dbs[k]), 0644) }}, "today", "--follow", "--no-style", "--no-warn", "@a")
		if rf.Panicked || rf.Stdout != want || rf.Code != wantCode || wantCode == 0 {
			viol("follow-resolution", fmt.Sprintf("`klog today --follow @a` while the bookmark database changes between refreshes printed (exit %d, panic %v)\n%q\nbut fresh runs against the database of each moment print (exit %d)\n%q", rf.Code, rf.PanicVal, rf.Stdout, wantCode, want))
			return
		}
		os.Remove(dbPath)
		e.hist = e.hist[:0]
	}
	if why := e.build(keys, state); why != "" {
		viol("build", why)
		return
	}
	c.Count("states", 1)
	model := modelOf(keys, state, e)
	canonical := e.db()
	// the database reads back to exactly the model map
	if m, why := dbMap(canonical); why != "" || !sameMap(m, model) {
		viol("db-readback", fmt.Sprintf("bookmarks.json %q reads back as %v (%s), the model is %v", canonical, m, why, model))
		return
	}
	// ---- observers on this state
	if r := e.run("bk", "ls"); r.Code != 0 || !sameListing(r.Stdout, model) {
		viol("list-alias", fmt.Sprintf("`klog bk ls` (alias of `bookmarks list`) printed\n%q\nmodel: %v", r.Stdout, model))
		return
	}
	if r := e.run("bookmarks", "list"); r.Code != 0 || !sameListing(r.Stdout, model) {
		viol("list", fmt.Sprintf("`bookmarks list` printed %q (exit %d), the model gives %q", r.Stdout, r.Code, listing(model)))
		return
	}
	// the listing (and the database written) must not depend on map iteration order: repeat under the
	// reversed and a rotated order of every map range (vrt.MapSeq owns them on the instrumented build)
	for _, pick := range []string{"last", "second"} {
		pick := pick
		vrt.SetMapChooser(func(kind string, n int, _ bool) int {
			if pick == "last" {
				return n - 1
			}
			return 1 % n
		})
		r := e.run("bookmarks", "list")
		e2 := c19Sibling(e)
		why := e2.build(keys, state)
		db2 := e2.db()
		vrt.SetMapChooser(nil)
		c.Count("map_order_executions", 2)
		if !sameListing(r.Stdout, model) {
			viol("list-order", fmt.Sprintf("under a different map iteration order (%s alternative) `bookmarks list` printed %q, the model gives %q (ordered by name)", pick, r.Stdout, listing(model)))
			return
		}
		if why == "" && db2 != canonical {
			viol("db-order", fmt.Sprintf("under a different map iteration order (%s alternative) the same bookmarks are written as %q instead of %q", pick, db2, canonical))
			return
		}
	}
	names := []string{}
	for _, k := range keys {
		names = append(names, c19Spellings[k]...)
	}
	names = append(names, "nope", "@nope", "@@", "@ a")
	for _, n := range names {
		want, has := model[normName(n)]
		for _, flag := range []string{"", "--dir", "--file"} {
			args := []string{"bookmarks", "info"}
			if flag != "" {
				args = append(args, flag)
			}
			if n == "" {
				continue // `info` requires an argument
			}
			r := e.run(append(args, n)...)
			c.Eval(1)
			if !has {
				if r.Code == 0 || r.Panicked {
					viol("info-unknown", fmt.Sprintf("`bookmarks info %s %q` must fail for an unknown name (exit %d, out %q)", flag, n, r.Code, r.Stdout))
					return
				}
				continue
			}
			exp := want
			if flag == "--dir" {
				exp = filepath.Dir(want)
			} else if flag == "--file" {
				exp = filepath.Base(want)
			}
			if r.Code != 0 || r.Stdout != exp+"\n" {
				viol("info", fmt.Sprintf("`bookmarks info %s %q` printed %q (exit %d), expected %q", flag, n, r.Stdout, r.Code, exp))
				return
			}
		}
		// resolution of @name arguments by an ordinary command
		if strings.HasPrefix(n, "@") {
			r := e.run("total", "--no-warn", "--no-style", n)
			c.Eval(1)
			ti := -1
			for i, p := range e.paths {
				if has && p == want {
					ti = i
				}
			}
			switch {
			case !has || c19Targets[ti].total == "":
				if r.Code == 0 || r.Panicked {
					viol("resolve-unknown", fmt.Sprintf("`klog total %q` must fail (no such bookmark / missing file) but exit %d: %q", n, r.Code, r.Stdout))
					return
				}
			default:
				if r.Code != 0 || !strings.HasPrefix(r.Stdout, "Total: "+c19Targets[ti].total+"\n") {
					viol("resolve", fmt.Sprintf("`klog total %q` printed %q (exit %d), expected the total %s of %s", n, r.Stdout, r.Code, c19Targets[ti].total, want))
					return
				}
			}
		}
	}
	// default bookmark without any argument
	{
		r := e.run("total", "--no-warn", "--no-style")
		want, has := model["default"]
		ti := -1
		for i, p := range e.paths {
			if has && p == want {
				ti = i
			}
		}
		if has && c19Targets[ti].total != "" {
			if r.Code != 0 || !strings.HasPrefix(r.Stdout, "Total: "+c19Targets[ti].total+"\n") {
				viol("resolve-default", fmt.Sprintf("`klog total` printed %q (exit %d), expected the total of the default bookmark %s", r.Stdout, r.Code, want))
				return
			}
		} else if r.Code == 0 {
			viol("resolve-default", fmt.Sprintf("`klog total` without default bookmark / with missing target must fail, printed %q", r.Stdout))
			return
		}
	}
	// ---- every operation from this state
	type op struct {
		args  []string
		stdin []string
		// model effect
		apply func(m map[string]string) (ok bool)
	}
	var ops []op
	for _, k := range keys {
		for _, sp := range c19Spellings[k] {
			k, sp := k, sp
			for ti := 0; ti < nt; ti++ {
				ti := ti
				spellings := []string{e.paths[ti]}
				if ti == 0 {
					spellings = append(spellings, e.rel)
				}
				for _, fsp := range spellings {
					for _, force := range []bool{false, true} {
						args := []string{"bookmarks", "set"}
						if force {
							args = append(args, "--force")
						}
						args = append(args, fsp)
						if sp != "" {
							args = append(args, sp)
						}
						exists := c19Targets[ti].total != ""
						force := force
						ops = append(ops, op{args: args, apply: func(m map[string]string) bool {
							if !exists && !force {
								return false
							}
							m[k] = e.paths[ti]
							return true
						}})
					}
				}
			}
			ops = append(ops, op{args: []string{"bookmarks", "unset", sp}, apply: func(m map[string]string) bool {
				if sp == "" {
					return false // the name is a required argument
				}
				if _, has := m[k]; !has {
					return false
				}
				delete(m, k)
				return true
			}})
		}
	}
	// the documented alias spellings of the same operations (bk / bookmark; new = set, rm = unset; -y = --yes)
	for _, k := range keys {
		k := k
		sp := ""
		for _, x := range c19Spellings[k] {
			if x != "" {
				sp = x
			}
		}
		if sp == "" {
			continue
		}
		ops = append(ops,
			op{args: []string{"bk", "new", e.paths[0], sp}, apply: func(m map[string]string) bool { m[k] = e.paths[0]; return true }},
			op{args: []string{"bookmark", "set", "--force", e.paths[0], sp}, apply: func(m map[string]string) bool { m[k] = e.paths[0]; return true }},
			op{args: []string{"bk", "rm", sp}, apply: func(m map[string]string) bool {
				if _, has := m[k]; !has {
					return false
				}
				delete(m, k)
				return true
			}},
		)
	}
	ops = append(ops,
		op{args: []string{"bk", "clear", "-y"}, apply: func(m map[string]string) bool {
			for k := range m {
				delete(m, k)
			}
			return true
		}},
		op{args: []string{"bookmarks", "unset", "nope"}, apply: func(m map[string]string) bool { return false }},
		op{args: []string{"bookmarks", "unset", "@a "}, apply: func(m map[string]string) bool { return false }},
		op{args: []string{"bookmarks", "clear", "--yes"}, apply: func(m map[string]string) bool {
			for k := range m {
				delete(m, k)
			}
			return true
		}},
		op{args: []string{"bookmarks", "clear"}, stdin: []string{"y"}, apply: func(m map[string]string) bool {
			for k := range m {
				delete(m, k)
			}
			return true
		}},
		op{args: []string{"bookmarks", "clear"}, stdin: []string{"n"}, apply: func(m map[string]string) bool { return true }},
	)
	for _, o := range ops {
		// restore the state (bytes) and apply one operation
		if canonical == "<absent>" {
			os.Remove(filepath.Join(e.home, "bookmarks.json"))
		} else {
			os.WriteFile(filepath.Join(e.home, "bookmarks.json"), []byte(canonical), 0644)
		}
		e.hist = e.hist[:0]
		e.hist = append(e.hist, fmt.Sprintf("<state %v>", state))
		var r clidrv.Result
		if len(o.args) >= 3 && o.args[2] == "" {
			// an empty name cannot be typed for `unset`; skip
			continue
		}
		if o.stdin != nil {
			r = e.answer(o.stdin, o.args...)
		} else {
			r = e.run(o.args...)
		}
		c.Eval(1)
		c.Count("transitions", 1)
		next := map[string]string{}
		for k, v := range model {
			next[k] = v
		}
		ok := o.apply(next)
		after := e.db()
		c.Nontrivial(fw.HashMix(fw.HashString(strings.Join(o.args, "\x00")), uint64(idx)))
		if r.Panicked {
			viol("panic:"+fw.PanicSite(r.Stack), fmt.Sprintf("`klog %s` panicked: %v\n%s", strings.Join(o.args, " "), r.PanicVal, r.Stack))
			return
		}
		if !ok {
			c.Outcome("rejected")
			if r.Code == 0 {
				viol("should-fail", fmt.Sprintf("`klog %s` must fail in state %v but exited 0: %q", strings.Join(o.args, " "), model, r.Stdout))
				return
			}
			if after != canonical {
				viol("failed-but-changed", fmt.Sprintf("`klog %s` failed (exit %d) but changed the database from %q to %q", strings.Join(o.args, " "), r.Code, canonical, after))
				return
			}
			continue
		}
		if r.Code != 0 {
			viol("should-succeed", fmt.Sprintf("`klog %s` failed (exit %d: %s) in state %v", strings.Join(o.args, " "), r.Code, r.Err, model))
			return
		}
		got, why := dbMap(after)
		if why != "" || !sameMap(got, next) {
			viol("transition", fmt.Sprintf("after `klog %s` in state %v the database reads back as %v (%s), the model gives %v", strings.Join(o.args, " "), model, got, why, next))
			return
		}
		if sameMap(next, model) {
			c.Outcome("no-change")
		} else {
			c.Outcome("changed")
		}
		// the list agrees, and the bytes are those of the successor state built on its own path
		if l := e.run("bookmarks", "list"); !sameListing(l.Stdout, next) {
			viol("list-after", fmt.Sprintf("`bookmarks list` after `klog %s` printed %q, the model gives %q", strings.Join(o.args, " "), l.Stdout, listing(next)))
			return
		}
		e2 := c19Sibling(e)
		succ := make(c19State, len(keys))
		for k, key := range keys {
			if p, has := next[key]; has {
				for i, tp := range e.paths {
					if tp == p {
						succ[k] = i + 1
					}
				}
			}
		}
		if why := e2.build(keys, succ); why == "" {
			if b := e2.db(); !(b == after || (len(next) == 0 && (after == "" || after == "<absent>") && (b == "" || b == "<absent>"))) {
				viol("state-not-canonical", fmt.Sprintf("the database after `klog %s` is %q, but the same map built from the empty database is %q", strings.Join(o.args, " "), after, b))
				return
			}
		}
	}
	c.Sample(func() any {
		return map[string]any{"state": model, "database": canonical, "operations_tried": len(ops)}
	})
}

// c19Sibling is a second config folder sharing the same target files.
func c19Sibling(e *c19Env) *c19Env {
	h := filepath.Join(e.dir, "cfg home 2")
	os.MkdirAll(h, 0755)
	return &c19Env{dir: e.dir, home: h, paths: e.paths, rel: e.rel}
}
