//go:build verif

package checks

import (
	"encoding/json"
	"fmt"
	"sort"
	"strings"
	"unicode/utf8"

	"github.com/jotaen/klog/klog"
	"github.com/jotaen/klog/klog/app"
	"github.com/jotaen/klog/klog/app/cli"
	cliutil "github.com/jotaen/klog/klog/app/cli/util"
	"github.com/jotaen/klog/klog/service"

	"klogverif/clidrv"
	"klogverif/docgen"
	"klogverif/fw"
	sm "klogverif/specmodel"
)

// C20 — the JSON output is well-formed and faithful to the data.

var c20Times = []string{"<0:00", "<23:59", "<24:00", "0:00", "12:00am", "12:30am", "1:00am", "11:59", "11:59am", "12:00pm", "12:00", "12:30pm", "12:59pm", "1:00pm", "13:00", "11:59pm", "23:59", "24:00", "0:00>", "12:15am>", "12:45pm>", "23:59>"}

var c20Alphabet = []string{"'", "\"", "\\", "\x01", "\x1f", "\x7f", "<", ">", "&", "é", "中", " ", "\xff", "#a", " ", "\\u0041", "\xe4\xb8", "\\u003c", "="}

func c20Families(tier fw.Tier) []docFamily {
	return cachedFamilies("c20/"+string(tier), func() []docFamily {
		var fs []docFamily
		for _, f := range sharedFamilies(tier) {
			switch f.name {
			case "FA1", "FD1", "FB":
				fs = append(fs, f)
			}
		}
		// every ordered pair of boundary time literals (24 h and 12 h, shifted, the 24:00 spellings, the noon and midnight hours)
		fs = append(fs, docFamily{"times", len(c20Times) * len(c20Times), func(i int) (string, []sm.Record, bool) {
			a, b := c20Times[i/len(c20Times)], c20Times[i%len(c20Times)]
			return "2021-05-05\n    " + a + " - " + b + " range\n\n0987/06/05 (1h!)\n    " + b + "-? open\n", nil, false
		}})
		// --now: the F3 documents of C02 (two records dated relative to the clock, open ranges at boundary times); the case index selects the clock
		fs = append(fs, docFamily{"now", c02NowCount(), func(i int) (string, []sm.Record, bool) {
			return c02NowDoc(docgen.Radix(i, len(c02NowDays), len(c02NowDays), len(c02NowStarts), len(c02NowClock), len(c02NowToday), 3)), nil, false
		}})
		k := 3
		if tier == fw.Thorough {
			k = 4
		}
		ts := docgen.TokenSpace{Alphabet: c20Alphabet, MaxLen: k, MinLen: 1}
		fs = append(fs, docFamily{"hostile", ts.Count() * 2, func(i int) (string, []sm.Record, bool) {
			s := ts.At(i / 2)
			if i%2 == 0 {
				return "2020-01-01 (1h!)\nS" + s + "\n    8:00 - 9:00 " + s + "\n        " + s + "x\n\n2019-12-31\n    -1h #a=" + s + "\n", nil, false
			}
			return "2019/12/31\n    <23:00-0:30> " + s + "\n    12:00am - ? #a " + s + "\n", nil, false
		}})
		return fs
	})
}

func init() {
	fw.Register(&fw.Check{
		ID:    "C20",
		Title: "The JSON output is well-formed and faithful to the data",
		Rule: "documents: FA1 (one record x value menus), the full formatting product FB, every single-edit document FD1 (valid and invalid), every ordered pair of " + fmt.Sprint(len(c20Times)) + " boundary time literals as a range (+ open range), the " + fmt.Sprint(c02NowCount()) + " clock-relative documents of C02-F3 with `json --now` at their clock, and ALL strings of 1..3 (quick) / 1..4 (thorough) symbols over " +
			"{\", \\, 0x01, 0x1F, 0x7F, <, >, &, é, 中, U+2028, 0xFF, #a, space, the six characters \\u0041 and \\u003c, a truncated UTF-8 sequence} placed in record summary, entry summary, continuation line and tag value; " +
			"each x {plain, --pretty, --sort asc, --sort desc, --date D, --tag a (documents containing #a)}. non-trivial = klog produced output; distinct by text hash.",
		Assumptions: []string{
			"specmodel.ParseJSON: strict RFC 8259 parser (valid UTF-8, defined escapes only, no raw control characters, no duplicate keys, nothing after the value)",
			"record content expected from specmodel.Parse; for don't-care texts (e.g. invalid UTF-8) from klog's own parsed records read through the public accessors; invalid bytes may only be coerced to U+FFFD",
			"the command struct cli.Json runs on the real context for every case (clidrv.Exec); every 32nd case also through klog.Run with real flag decoding",
		},
		Units: func(t fw.Tier) int { return len(planSpans(famSizes(c20Families(t)), 10000)) },
		RunUnit: func(c *fw.Ctx, unit int) {
			fs := c20Families(c.Tier)
			sp := planSpans(famSizes(fs), 10000)[unit]
			f := fs[sp.fam]
			for i := sp.lo; i < sp.hi; i++ {
				text, _, _ := f.at(i)
				if text == "" {
					continue
				}
				c20Text(c, f.name, i, text, i%32 == 0)
			}
		},
		Replay: func(c *fw.Ctx, raw json.RawMessage) {
			var cs famCase
			if json.Unmarshal(raw, &cs) == nil {
				c20Text(c, cs.Fam, cs.I, string(cs.Text), true)
			}
		},
	})
}

// coerce replaces every invalid UTF-8 byte by U+FFFD (the only admitted coercion).
func coerce(s string) string {
	if utf8.ValidString(s) {
		return s
	}
	var b strings.Builder
	for i := 0; i < len(s); {
		r, w := utf8.DecodeRuneInString(s[i:])
		if r == utf8.RuneError && w == 1 {
			b.WriteRune(utf8.RuneError)
		} else {
			b.WriteString(s[i : i+w])
		}
		i += w
	}
	return b.String()
}

// expected record view, from reference records
type jEntry struct {
	Type, Summary, Total string
	TotalMins            int
	Tags                 []string
	Start, End           string
	StartMins, EndMins   int
	HasStart, HasEnd     bool
}
type jRecord struct {
	Date, Summary, Total  string
	TotalMins, ShouldMins int
	Tags                  []string
	Entries               []jEntry
}

func sortedTags(lines []string) []string {
	ts := refTagStrings(sm.ScanSummaryTags(lines))
	sort.Strings(ts)
	return ts
}

func expectFromRef(rs []sm.Record) []jRecord {
	var out []jRecord
	for _, r := range rs {
		jr := jRecord{Date: r.Date.String(), Summary: coerce(strings.Join(r.Summary, "\n")), Total: sm.CanonicalDuration(r.Total()), TotalMins: r.Total(), Tags: sortedTags(r.Summary)}
		if r.HasShould {
			jr.ShouldMins = r.Should
		}
		for _, e := range r.Entries {
			je := jEntry{Type: e.Kind.String(), Summary: coerce(strings.Join(e.Summary, "\n")), Total: sm.CanonicalDuration(e.Minutes()), TotalMins: e.Minutes(), Tags: sortedTags(e.Summary)}
			if e.Kind != sm.KDuration {
				je.HasStart, je.Start, je.StartMins = true, e.Start.String(), e.Start.Mins
			}
			if e.Kind == sm.KRange {
				je.HasEnd, je.End, je.EndMins = true, e.End.String(), e.End.Mins
			}
			jr.Entries = append(jr.Entries, je)
		}
		out = append(out, jr)
	}
	return out
}

// expectFromKlog derives the expectation from klog's own records (for don't-care texts).
func expectFromKlog(rs []klog.Record) []jRecord {
	var out []jRecord
	for _, r := range rs {
		total := 0
		jr := jRecord{Date: r.Date().ToString(), Summary: coerce(strings.Join(r.Summary(), "\n")), ShouldMins: r.ShouldTotal().InMinutes(), Tags: sortedTags(r.Summary())}
		for _, e := range r.Entries() {
			e := e
			je := jEntry{Summary: coerce(strings.Join(e.Summary(), "\n")), TotalMins: e.Duration().InMinutes(), Tags: sortedTags(e.Summary())}
			je.Total = sm.CanonicalDuration(je.TotalMins)
			klog.Unbox[int](&e, func(g klog.Range) int {
				je.Type, je.HasStart, je.HasEnd = "range", true, true
				je.Start, je.StartMins = g.Start().ToString(), g.Start().MidnightOffset().InMinutes()
				je.End, je.EndMins = g.End().ToString(), g.End().MidnightOffset().InMinutes()
				return 0
			}, func(klog.Duration) int { je.Type = "duration"; return 0 }, func(o klog.OpenRange) int {
				je.Type, je.HasStart = "open_range", true
				je.Start, je.StartMins = o.Start().ToString(), o.Start().MidnightOffset().InMinutes()
				return 0
			})
			total += je.TotalMins
			jr.Entries = append(jr.Entries, je)
		}
		jr.TotalMins, jr.Total = total, sm.CanonicalDuration(total)
		out = append(out, jr)
	}
	return out
}

func jstr(v sm.JValue, k string) (string, bool) {
	x, ok := v.Get(k)
	if !ok || x.Kind != sm.JStr {
		return "", false
	}
	return x.Str, true
}

func jint(v sm.JValue, k string) (int, bool) {
	x, ok := v.Get(k)
	if !ok {
		return 0, false
	}
	return x.Int()
}

func jstrs(v sm.JValue, k string) ([]string, bool) {
	x, ok := v.Get(k)
	if !ok || x.Kind != sm.JArr {
		return nil, false
	}
	out := []string{}
	for _, e := range x.Arr {
		if e.Kind != sm.JStr {
			return nil, false
		}
		out = append(out, e.Str)
	}
	return out, true
}

// sameKeys: the object carries (at least) the given keys — additional fields would not contradict the statement.
func sameKeys(v sm.JValue, keys ...string) bool {
	if v.Kind != sm.JObj {
		return false
	}
	for _, k := range keys {
		if _, ok := v.Obj[k]; !ok {
			return false
		}
	}
	return true
}

// c20CheckRecords compares a JSON document with the expected record views. It returns "" if faithful.
func c20CheckRecords(out string, want []jRecord) string {
	doc, err := sm.ParseJSON(out)
	if err != nil {
		return "output is not well-formed JSON: " + err.Error()
	}
	if !sameKeys(doc, "records", "errors") {
		return fmt.Sprintf("top level is not an object with exactly the keys records and errors (%v)", doc.Keys)
	}
	recs, errs := doc.Obj["records"], doc.Obj["errors"]
	if errs.Kind != sm.JNull || recs.Kind != sm.JArr {
		return "for valid input records must be an array and errors null"
	}
	if len(recs.Arr) != len(want) {
		return fmt.Sprintf("%d record objects, expected %d", len(recs.Arr), len(want))
	}
	for i, r := range recs.Arr {
		if why := c20CompareRecord(i, r, want[i]); why != "" {
			return why
		}
	}
	return ""
}

// c20CompareRecord compares one record object with its expected view.
func c20CompareRecord(i int, r sm.JValue, w jRecord) string {
	{
		if !sameKeys(r, "date", "summary", "total", "total_mins", "should_total", "should_total_mins", "diff", "diff_mins", "tags", "entries") {
			return fmt.Sprintf("record %d has keys %v", i, r.Keys)
		}
		date, _ := jstr(r, "date")
		summary, _ := jstr(r, "summary")
		total, _ := jstr(r, "total")
		totalMins, ok1 := jint(r, "total_mins")
		should, _ := jstr(r, "should_total")
		shouldMins, ok2 := jint(r, "should_total_mins")
		diff, _ := jstr(r, "diff")
		diffMins, ok3 := jint(r, "diff_mins")
		tags, ok4 := jstrs(r, "tags")
		if !ok1 || !ok2 || !ok3 || !ok4 {
			return fmt.Sprintf("record %d: a numeric/array field has the wrong JSON type", i)
		}
		if date != w.Date || summary != w.Summary || total != w.Total || totalMins != w.TotalMins || shouldMins != w.ShouldMins || fmt.Sprintf("%q", tags) != fmt.Sprintf("%q", w.Tags) {
			return fmt.Sprintf("record %d is {date %q, summary %q, total %q/%d, should %d, tags %q}; the data is {date %q, summary %q, total %q/%d, should %d, tags %q}",
				i, date, summary, total, totalMins, shouldMins, tags, w.Date, w.Summary, w.Total, w.TotalMins, w.ShouldMins, w.Tags)
		}
		if strings.TrimSuffix(should, "!") != sm.CanonicalDuration(w.ShouldMins) {
			return fmt.Sprintf("record %d: should_total %q for %d minutes", i, should, w.ShouldMins)
		}
		if diffMins != totalMins-shouldMins {
			return fmt.Sprintf("record %d: diff_mins %d is not total_mins %d minus should_total_mins %d", i, diffMins, totalMins, shouldMins)
		}
		wantDiff := sm.CanonicalDuration(diffMins)
		if diffMins > 0 {
			wantDiff = "+" + wantDiff
		}
		if diff != wantDiff {
			return fmt.Sprintf("record %d: diff %q for %d minutes", i, diff, diffMins)
		}
		ents, ok := r.Get("entries")
		if !ok || ents.Kind != sm.JArr || len(ents.Arr) != len(w.Entries) {
			return fmt.Sprintf("record %d: entries is not an array of %d objects", i, len(w.Entries))
		}
		sum := 0
		for j, e := range ents.Arr {
			we := w.Entries[j]
			typ, _ := jstr(e, "type")
			keys := []string{"type", "summary", "tags", "total", "total_mins"}
			if typ == "range" || typ == "open_range" {
				keys = append(keys, "start", "start_mins")
			}
			if typ == "range" {
				keys = append(keys, "end", "end_mins")
			}
			if !sameKeys(e, keys...) {
				return fmt.Sprintf("record %d entry %d (%s) has keys %v", i, j, typ, e.Keys)
			}
			esum, _ := jstr(e, "summary")
			etotal, _ := jstr(e, "total")
			emins, okm := jint(e, "total_mins")
			etags, okt := jstrs(e, "tags")
			if !okm || !okt || typ != we.Type || esum != we.Summary || etotal != we.Total || emins != we.TotalMins || fmt.Sprintf("%q", etags) != fmt.Sprintf("%q", we.Tags) {
				return fmt.Sprintf("record %d entry %d is {%s, summary %q, total %q/%d, tags %q}; the data is {%s, summary %q, total %q/%d, tags %q}", i, j, typ, esum, etotal, emins, etags, we.Type, we.Summary, we.Total, we.TotalMins, we.Tags)
			}
			sum += emins
			if we.HasStart {
				st, _ := jstr(e, "start")
				sm_, oks := jint(e, "start_mins")
				if !oks || st != we.Start || sm_ != we.StartMins {
					return fmt.Sprintf("record %d entry %d: start %q/%d, the data is %q/%d", i, j, st, sm_, we.Start, we.StartMins)
				}
				if we.HasEnd {
					en, _ := jstr(e, "end")
					em, oke := jint(e, "end_mins")
					if !oke || en != we.End || em != we.EndMins {
						return fmt.Sprintf("record %d entry %d: end %q/%d, the data is %q/%d", i, j, en, em, we.End, we.EndMins)
					}
					if emins != em-sm_ {
						return fmt.Sprintf("record %d entry %d: total_mins %d is not end_mins %d minus start_mins %d", i, j, emins, em, sm_)
					}
				}
			}
		}
		if sum != totalMins {
			return fmt.Sprintf("record %d: total_mins %d is not the sum of the entries' total_mins %d", i, totalMins, sum)
		}
	}
	return ""
}

func c20Text(c *fw.Ctx, fam string, idx int, text string, viaCLI bool) {
	c.Eval(1)
	cs := func() famCase { return famCase{fam, idx, fw.Txt(text)} }
	c.Sample(func() any { return cs() })
	dir := fw.Scratch()
	home := clidrv.Home("home")
	path := clidrv.WriteFile(dir, "c20.klg", text)
	rs, _, errs, panicked, _, _ := klogParse(text)
	if panicked {
		c.Outcome("skipped-parser-panics")
		return
	}
	c.NontrivialString(text)
	in := fileArgs(path)
	if len(errs) > 0 {
		if ref0 := sm.Parse(text); ref0.Verdict == sm.Valid && !ref0.ZsBlank {
			c.Violation("valid-input-rejected", cs(), fmt.Sprintf("the text is a valid file but `klog json` can only report errors for it (%s): its records are not reproduced", errSummary(errs)))
			return
		}
		// invalid input: records null, errors as reported by the parser / the terminal report
		// what the parser's errors say through the accessors the terminal report uses (whether those facts are RIGHT
		// is C10's business; here the JSON report must carry the same ones)
		var facts []errFacts
		for _, e := range errs {
			e := e
			var f errFacts
			if p, _, _ := tryRun(func() {
				f = errFacts{line: e.LineNumber(), pos: e.Position(), length: e.Length(), text: e.LineText(), title: e.Title(), details: e.Details()}
			}); p {
				c.Outcome("skipped-bad-error-facts") // an accessor panics: C06's / C10's business
				return
			}
			facts = append(facts, f)
		}
		for _, pretty := range []bool{false, true} {
			r := clidrv.Exec(home, clidrv.Opts{Now: fixedNow}, &cli.Json{Pretty: pretty, InputFilesArgs: in})
			if r.Panicked || r.Code != 0 {
				c.Violation("json-errors-failed", cs(), fmt.Sprintf("klog json (pretty=%v) failed on invalid input: exit %d panic %v\n%s", pretty, r.Code, r.PanicVal, r.Stack))
				return
			}
			doc, err := sm.ParseJSON(strings.TrimSuffix(r.Stdout, "\n"))
			if err != nil {
				c.Violation("json-malformed", cs(), fmt.Sprintf("output is not well-formed JSON: %v\n%s", err, r.Stdout))
				return
			}
			if !sameKeys(doc, "records", "errors") || doc.Obj["records"].Kind != sm.JNull || doc.Obj["errors"].Kind != sm.JArr {
				c.Violation("json-envelope", cs(), fmt.Sprintf("for invalid input records must be null and errors an array:\n%s", r.Stdout))
				return
			}
			for _, e := range doc.Obj["errors"].Arr {
				if !sameKeys(e, "line", "column", "length", "title", "details", "file") {
					c.Violation("json-error-object", cs(), fmt.Sprintf("error object has keys %v", e.Keys))
					return
				}
			}
			if why := c10ParseJSON(strings.TrimSuffix(r.Stdout, "\n"), facts, path); why != "" {
				c.Violation("json-errors", cs(), why+"\n"+r.Stdout)
				return
			}
		}
		// two input files, a valid one first: the same errors, attributed to the invalid file
		if idx%4 == 0 {
			good := clidrv.WriteFile(dir, "c20good.klg", "2000-01-01\n    1h\n\n2000-01-02\n    2h\n")
			for _, order := range [][]string{{good, path}, {path, good}} {
				both := cliutil.InputFilesArgs{File: []app.FileOrBookmarkName{app.FileOrBookmarkName(order[0]), app.FileOrBookmarkName(order[1])}}
				r := clidrv.Exec(home, clidrv.Opts{Now: fixedNow}, &cli.Json{InputFilesArgs: both})
				if r.Panicked || r.Code != 0 {
					c.Violation("json-errors-failed", cs(), fmt.Sprintf("klog json with a valid and the invalid file failed: exit %d panic %v\n%s", r.Code, r.PanicVal, r.Stack))
					return
				}
				if why := c10ParseJSON(strings.TrimSuffix(r.Stdout, "\n"), facts, path); why != "" {
					c.Violation("json-errors-two-files", cs(), fmt.Sprintf("with a valid file %s the invalid one: %s\n%s", map[bool]string{true: "in front of", false: "after"}[order[0] == good], why, r.Stdout))
					return
				}
			}
		}
		// the terminal report shows the same numbers
		r := clidrv.Exec(home, clidrv.Opts{Now: fixedNow, Env: map[string]string{"NO_COLOR": "1"}}, &cli.Print{InputFilesArgs: in})
		if why := c10ParseTerminal(r.Err, facts, path); why != "" {
			c.Violation("json-vs-terminal", cs(), "terminal report disagrees with the parser's errors: "+why+"\n"+r.Err)
		}
		c.Outcome("invalid-input")
		return
	}
	ref := sm.Parse(text)
	var want []jRecord
	if ref.Verdict == sm.Valid && len(ref.Records) == len(rs) {
		want = expectFromRef(ref.Records)
		c.Outcome("valid-input-reference")
	} else {
		var p bool
		p, _, _ = tryRun(func() { want = expectFromKlog(rs) })
		if p {
			c.Outcome("skipped-accessor-panics")
			return
		}
		c.Outcome("valid-input-dont-care")
	}
	sortedWant := func(asc bool) []jRecord {
		w := append([]jRecord{}, want...)
		sort.SliceStable(w, func(i, j int) bool {
			a, b := strings.ReplaceAll(w[i].Date, "/", "-"), strings.ReplaceAll(w[j].Date, "/", "-")
			if asc {
				return a < b
			}
			return a > b
		})
		return w
	}
	type variant struct {
		name string
		cmd  *cli.Json
		args []string
		want []jRecord
		// order-insensitive among equal dates (sorting need not be stable)
		sorted bool
	}
	vs := []variant{
		{"plain", &cli.Json{InputFilesArgs: in}, nil, want, false},
		{"--pretty", &cli.Json{Pretty: true, InputFilesArgs: in}, []string{"--pretty"}, want, false},
		{"--sort asc", &cli.Json{SortArgs: cliutil.SortArgs{Sort: "asc"}, InputFilesArgs: in}, []string{"--sort", "asc"}, sortedWant(true), true},
		{"--sort desc", &cli.Json{SortArgs: cliutil.SortArgs{Sort: "desc"}, InputFilesArgs: in}, []string{"--sort", "desc"}, sortedWant(false), true},
	}
	if len(rs) > 0 {
		d := rs[0].Date()
		var w []jRecord
		for i, r := range rs {
			if r.Date().IsEqualTo(d) {
				w = append(w, want[i])
			}
		}
		vs = append(vs, variant{"--date " + d.ToString(), &cli.Json{FilterArgs: cliutil.FilterArgs{Date: d}, InputFilesArgs: in}, []string{"--date", d.ToString()}, w, false})
	}
	if ref.Verdict == sm.Valid && len(ref.Records) == len(rs) {
		// a tag filter: the selection is C13's subject, here the selected records must be rendered faithfully.
		// Queried: the first tag that occurs in an entry summary (entry-level reduction), else in a record summary.
		name := ""
		for _, r := range ref.Records {
			for _, e := range r.Entries {
				if ts := sm.ScanSummaryTags(e.Summary); name == "" && len(ts) > 0 {
					name = ts[0].Name
				}
			}
		}
		for _, r := range ref.Records {
			if ts := sm.ScanSummaryTags(r.Summary); name == "" && len(ts) > 0 {
				name = ts[0].Name
			}
		}
		if kt, err := klog.NewTagFromString(name); name != "" && err == nil {
			sel := c13Apply(ref.Records, []c13Clause{{kind: "tag", recTags: []sm.Tag{{Name: name}}}})
			vs = append(vs, variant{"--tag " + name, &cli.Json{FilterArgs: cliutil.FilterArgs{Tags: []klog.Tag{kt}}, InputFilesArgs: in}, []string{"--tag", name}, expectFromRef(sel), false})
		}
	}
	if ref.Verdict == sm.Valid && len(ref.Records) == len(rs) {
		// entry-type filters: the records that remain (with their should-totals, summaries, reduced entries and
		// re-computed totals) must be rendered as faithfully as unfiltered ones
		for _, tc := range []struct {
			name string
			et   service.EntryType
			kind sm.EntryKind
		}{{"range", service.ENTRY_TYPE_RANGE, sm.KRange}, {"duration", service.ENTRY_TYPE_DURATION, sm.KDuration}, {"open-range", service.ENTRY_TYPE_OPEN_RANGE, sm.KOpenRange}} {
			kind := tc.kind
			sel := c13Apply(ref.Records, []c13Clause{{kind: "type", entryOK: func(_ sm.Record, e sm.Entry) bool { return e.Kind == kind }}})
			vs = append(vs, variant{"--entry-type " + tc.name, &cli.Json{FilterArgs: cliutil.FilterArgs{EntryType: tc.et}, InputFilesArgs: in}, []string{"--entry-type", tc.name}, expectFromRef(sel), false})
		}
	}
	if fam == "now" && ref.Verdict == sm.Valid {
		// `klog json --now` at the clock reading the case index selects: the open ranges appear closed at that instant
		d := docgen.Radix(idx, len(c02NowDays), len(c02NowDays), len(c02NowStarts), len(c02NowClock), len(c02NowToday), 3)
		td, clk := c02NowToday[d[4]], c02NowClock[d[3]]
		closed, ok, _ := sm.CloseAt(ref.Records, sm.DayNumber(sm.Date{Y: td[0], M: td[1], D: td[2]}), clk[0]*60+clk[1])
		o := clidrv.Opts{Now: dateAt(td[0], td[1], td[2], clk[0], clk[1])}
		r := clidrv.Exec(home, o, &cli.Json{NowArgs: cliutil.NowArgs{Now: true}, InputFilesArgs: in})
		if r.Panicked {
			c.Violation("json-failed", cs(), fmt.Sprintf("klog json --now panicked: %v\n%s", r.PanicVal, r.Stack))
			return
		}
		if ok {
			if r.Code != 0 {
				c.Violation("json-failed", cs(), fmt.Sprintf("klog json --now at %s failed: exit %d %s", o.Now.Format("2006-01-02 15:04"), r.Code, r.Err))
				return
			}
			if why := c20CheckRecords(strings.TrimSuffix(r.Stdout, "\n"), expectFromRef(closed)); why != "" {
				c.Violation("json-unfaithful", cs(), fmt.Sprintf("klog json --now at %s: %s\n%s", o.Now.Format("2006-01-02 15:04"), why, truncateStr(r.Stdout, 1500)))
				return
			}
			c.Count("now_closed", 1)
		} else if r.Code == 0 {
			c.Violation("json-now-not-refused", cs(), fmt.Sprintf("klog json --now at %s must refuse (an open range cannot be closed at that instant):\n%s", o.Now.Format("2006-01-02 15:04"), truncateStr(r.Stdout, 800)))
			return
		}
	}
	// the same records spread over two input files (cut after the first record): the same record objects, in the order
	// of the files on the command line
	if ref.Verdict == sm.Valid && len(ref.Records) == len(rs) && idx%4 == 0 {
		if parts := c02Split(text, ref.Records); parts != nil {
			pa := clidrv.WriteFile(dir, "c20a.klg", parts[0])
			pb := clidrv.WriteFile(dir, "c20b.klg", parts[1])
			both := cliutil.InputFilesArgs{File: []app.FileOrBookmarkName{app.FileOrBookmarkName(pa), app.FileOrBookmarkName(pb)}}
			r := clidrv.Exec(home, clidrv.Opts{Now: fixedNow}, &cli.Json{InputFilesArgs: both})
			if r.Panicked || r.Code != 0 {
				c.Violation("json-failed", cs(), fmt.Sprintf("klog json A B failed: exit %d panic %v\n%s%s", r.Code, r.PanicVal, r.Err, r.Stack))
				return
			}
			if why := c20CheckRecords(strings.TrimSuffix(r.Stdout, "\n"), want); why != "" {
				c.Violation("json-two-files", cs(), fmt.Sprintf("klog json A B (the records spread over two files): %s\n%s", why, truncateStr(r.Stdout, 1500)))
				return
			}
			c.Count("two_file_runs", 1)
		}
	}
	// the same text piped through standard input (no file argument): the same document
	if idx%8 == 0 && strings.TrimSpace(text) != "" {
		in := text
		rf := clidrv.Exec(home, clidrv.Opts{Now: fixedNow}, &cli.Json{InputFilesArgs: fileArgs(path)})
		rs0 := clidrv.Exec(clidrv.Home("home-nobookmarks"), clidrv.Opts{Now: fixedNow, OSStdin: &in}, &cli.Json{})
		if rs0.Panicked || rs0.Code != rf.Code || rs0.Stdout != rf.Stdout {
			c.Violation("json-stdin-differs", cs(), fmt.Sprintf("`klog json` with the text on standard input (exit %d, panic %v, %s) prints\n%s\nbut `klog json FILE` prints\n%s", rs0.Code, rs0.PanicVal, rs0.Err, truncateStr(rs0.Stdout, 800), truncateStr(rf.Stdout, 800)))
			return
		}
	}
	for _, v := range vs {
		r := clidrv.Exec(home, clidrv.Opts{Now: fixedNow}, v.cmd)
		if r.Panicked || r.Code != 0 {
			c.Violation("json-failed", cs(), fmt.Sprintf("klog json %s failed: exit %d panic %v\n%s%s", v.name, r.Code, r.PanicVal, r.Err, r.Stack))
			return
		}
		out := strings.TrimSuffix(r.Stdout, "\n")
		why := c20CheckRecords(out, v.want)
		if why != "" && v.sorted {
			// records with equal dates may come in any order: accept if it is a date-monotone permutation
			why = c20CheckSorted(out, v.want)
		}
		if why != "" {
			c.Violation("json-unfaithful", cs(), fmt.Sprintf("klog json %s: %s\n%s", v.name, why, truncateStr(out, 1500)))
			return
		}
		if viaCLI {
			r2 := clidrv.Run(home, clidrv.Opts{Now: fixedNow}, append(append([]string{"json"}, v.args...), path)...)
			if r2.Panicked || r2.Code != r.Code || r2.Stdout != r.Stdout {
				c.Violation("json-cli-differs", cs(), fmt.Sprintf("`klog json %s` through the CLI (exit %d, panic %v) differs from the command run directly:\n%s\nvs\n%s", v.name, r2.Code, r2.PanicVal, truncateStr(r2.Stdout, 800), truncateStr(r.Stdout, 800)))
				return
			}
		}
	}
}

func truncateStr(s string, n int) string {
	if len(s) > n {
		return s[:n] + "…"
	}
	return s
}

// c20CheckSorted: `want` is sorted by date; records that share a date may come in any order
// (the statement only says "ordered by date").
func c20CheckSorted(out string, want []jRecord) string {
	doc, err := sm.ParseJSON(out)
	if err != nil || doc.Obj["records"].Kind != sm.JArr || len(doc.Obj["records"].Arr) != len(want) {
		return "sorted output malformed or of the wrong length"
	}
	norm := func(d string) string { return strings.ReplaceAll(d, "/", "-") }
	used := make([]bool, len(want))
	for i, r := range doc.Obj["records"].Arr {
		date, _ := jstr(r, "date")
		if norm(date) != norm(want[i].Date) {
			return fmt.Sprintf("sorted output is not ordered by date: position %d holds %q, expected a record dated %q", i, date, want[i].Date)
		}
		found := false
		var lastWhy string
		for k, w := range want {
			if used[k] || norm(w.Date) != norm(date) {
				continue
			}
			if why := c20CompareRecord(i, r, w); why == "" {
				used[k] = true
				found = true
				break
			} else {
				lastWhy = why
			}
		}
		if !found {
			return "sorted output contains a record that equals no input record of that date: " + lastWhy
		}
	}
	return ""
}
