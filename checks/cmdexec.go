//go:build verif

package checks

import (
	gotime "time"

	"github.com/jotaen/klog/klog"
	"github.com/jotaen/klog/klog/app"
	"github.com/jotaen/klog/klog/app/cli"
	cliutil "github.com/jotaen/klog/klog/app/cli/util"
	"github.com/jotaen/klog/klog/service"

	"klogverif/clidrv"
)

// ExecOp runs the command struct directly on the real (wrapped) context, building the flag
// values with the same public constructors the kong decoders use. ok=false means the flags
// themselves are invalid (the CLI would reject the invocation).
func ExecOp(home, path string, o Op, env CmdEnv) (res clidrv.Result, ok bool) {
	opts := clidrv.Opts{Now: env.Clock(), ConfigFile: env.ConfigFile(), NumCpus: env.NumCpus}
	for _, t := range o.Ticks {
		opts.TickTimes = append(opts.TickTimes, env.Clock().Add(gotime.Duration(t)*gotime.Second))
	}
	opts.OnTick = env.OnTick
	out := cliutil.OutputFileArgs{File: app.FileOrBookmarkName(path)}
	ns := cliutil.NoStyleArgs{NoStyle: true}
	var date klog.Date
	if o.Date != "" {
		d, err := klog.NewDateFromString(o.Date)
		if err != nil {
			return res, false
		}
		date = d
	}
	at := cliutil.AtDateArgs{Date: date, Today: o.Rel == "today", Yesterday: o.Rel == "yesterday", Tomorrow: o.Rel == "tomorrow"}
	var tm klog.Time
	if o.Time != "" {
		t, err := klog.NewTimeFromString(o.Time)
		if err != nil {
			return res, false
		}
		tm = t
	}
	var rnd service.Rounding
	if o.Round != "" {
		r, err := service.NewRoundingFromString(o.Round)
		if err != nil {
			return res, false
		}
		rnd = r
	}
	adt := cliutil.AtDateAndTimeArgs{Round: rnd, AtDateArgs: at, Time: tm}
	var esum klog.EntrySummary
	if o.HasSum && o.Kind != "create" {
		s, err := klog.NewEntrySummary(splitLines(o.Summary)...)
		if err != nil || o.Summary == "" {
			return res, false
		}
		esum = s
	}
	sa := cliutil.SummaryArgs{SummaryText: esum, Resume: o.Resume, ResumeNth: o.ResumeNth}
	var cmd clidrv.Runner
	switch o.Kind {
	case "track":
		e, err := klog.NewEntrySummary(splitLines(o.Entry)...)
		if err != nil || o.Entry == "" {
			return res, false
		}
		cmd = &cli.Track{Entry: e, AtDateArgs: at, NoStyleArgs: ns, OutputFileArgs: out}
	case "start":
		cmd = &cli.Start{SummaryArgs: sa, AtDateAndTimeArgs: adt, NoStyleArgs: ns, OutputFileArgs: out}
	case "stop":
		cmd = &cli.Stop{Summary: esum, AtDateAndTimeArgs: adt, NoStyleArgs: ns, OutputFileArgs: out}
	case "switch":
		cmd = &cli.Switch{SummaryArgs: sa, AtDateAndTimeArgs: adt, NoStyleArgs: ns, OutputFileArgs: out}
	case "pause":
		cmd = &cli.Pause{Summary: esum, NoAppendTags: o.NoTags, Extend: o.Extend, NoStyleArgs: ns, OutputFileArgs: out}
	case "create":
		c := &cli.Create{AtDateArgs: at, NoStyleArgs: ns, OutputFileArgs: out}
		if o.Should != "" {
			m, okS := shouldOf(o.Should)
			if !okS {
				return res, false
			}
			c.ShouldTotal = klog.NewShouldTotal(0, m)
		}
		if o.HasSum {
			s, err := klog.NewRecordSummary(splitLines(o.Summary)...)
			if err != nil || o.Summary == "" {
				return res, false
			}
			c.Summary = s
		}
		cmd = c
	default:
		return res, false
	}
	return clidrv.Exec(home, opts, cmd), true
}
