//go:build verif

package checks

import (
	"fmt"
	"strings"
	gotime "time"

	"klogverif/clidrv"
	sm "klogverif/specmodel"
)

// Abstract model of the six mutating commands on a list of records (DESIGN.md Appendix B),
// written from the commands' documentation. It predicts whether a command succeeds and, if
// so, the exact record list afterwards (values, summaries, order) — not the notation, which
// is C11's subject, and not the bytes, which are C03's.

type Op struct {
	Kind      string `json:"kind"` // track | start | stop | switch | pause | create
	Date      string `json:"date,omitempty"`
	Rel       string `json:"rel,omitempty"` // today | yesterday | tomorrow
	Time      string `json:"time,omitempty"`
	Round     string `json:"round,omitempty"`
	Summary   string `json:"summary,omitempty"` // lines separated by \n
	HasSum    bool   `json:"has_summary,omitempty"`
	Resume    bool   `json:"resume,omitempty"`
	ResumeNth int    `json:"resume_nth,omitempty"`
	Entry     string `json:"entry,omitempty"`  // track
	Should    string `json:"should,omitempty"` // create
	Extend    bool   `json:"extend,omitempty"`
	NoTags    bool   `json:"no_tags,omitempty"`
	Ticks     []int  `json:"ticks,omitempty"` // pause: seconds elapsed since the start at each loop iteration
}

type CmdEnv struct {
	Today         sm.Date
	NowMins       int    // minutes since midnight
	DefaultShould string // config default_should_total ("" = unset)
	DefaultRound  string // config default_rounding
	DateFormat    string // config date_format
	TimeConv      string // config time_convention
	NumCpus       int
	OnTick        func(k int) `json:"-"` // environment event before refresh k of a repeating command
	Secs          int         // seconds within the minute of the clock reading (the model works in whole minutes)
}

func (e CmdEnv) Clock() gotime.Time {
	return dateAt(e.Today.Y, e.Today.M, e.Today.D, e.NowMins/60, e.NowMins%60).Add(gotime.Duration(e.Secs) * gotime.Second)
}

func (e CmdEnv) ConfigFile() string {
	s := ""
	if e.DefaultShould != "" {
		s += "default_should_total = " + e.DefaultShould + "\n"
	}
	if e.DefaultRound != "" {
		s += "default_rounding = " + e.DefaultRound + "\n"
	}
	if e.DateFormat != "" {
		s += "date_format = " + e.DateFormat + "\n"
	}
	if e.TimeConv != "" {
		s += "time_convention = " + e.TimeConv + "\n"
	}
	return s
}

// Args renders the command line.
func (o Op) Args(path string) []string {
	a := []string{o.Kind}
	if o.Kind == "track" {
		e := o.Entry
		if strings.HasPrefix(e, "-") {
			e = "\\" + e // as the help text instructs for negative durations
		}
		a = append(a, e)
	}
	if o.Date != "" {
		a = append(a, "--date="+o.Date)
	}
	if o.Rel != "" {
		a = append(a, "--"+o.Rel)
	}
	if o.Time != "" {
		a = append(a, "--time="+o.Time)
	}
	if o.Round != "" {
		a = append(a, "--round="+o.Round)
	}
	if o.HasSum {
		a = append(a, "--summary="+o.Summary)
	}
	if o.Resume {
		a = append(a, "--resume")
	}
	if o.ResumeNth != 0 {
		a = append(a, fmt.Sprintf("--resume-nth=%d", o.ResumeNth))
	}
	if o.Should != "" {
		a = append(a, "--should="+o.Should)
	}
	if o.Extend {
		a = append(a, "--extend")
	}
	if o.NoTags {
		a = append(a, "--no-tags")
	}
	return append(a, "--no-style", path)
}

func (o Op) String() string { return strings.Join(o.Args("FILE"), " ") }

// RunOp executes the command through the complete CLI on a real file.
func RunOp(home, path string, o Op, env CmdEnv) clidrv.Result {
	opts := clidrv.Opts{Now: env.Clock(), ConfigFile: env.ConfigFile(), NumCpus: env.NumCpus}
	for _, t := range o.Ticks {
		opts.TickTimes = append(opts.TickTimes, env.Clock().Add(gotime.Duration(t)*gotime.Second))
	}
	opts.OnTick = env.OnTick
	return clidrv.Run(home, opts, o.Args(path)...)
}

type ModelResult struct {
	OK       bool
	Records  []sm.Record
	Why      string // why the model rejects
	DontCare string // non-empty: the model does not predict this situation
	NewAt    int    // index of a newly created record, -1 if none
	AnyPos   bool   // the new record's position is not determined (unsorted file)
}

func reject(why string) ModelResult { return ModelResult{Why: why, NewAt: -1} }

func roundingOf(s string) (int, bool) {
	switch s {
	case "5m", "5":
		return 5, true
	case "10m", "10":
		return 10, true
	case "12m", "12":
		return 12, true
	case "15m", "15":
		return 15, true
	case "20m", "20":
		return 20, true
	case "30m", "30":
		return 30, true
	case "60m", "60", "1h":
		return 60, true
	}
	return 0, false
}

// RoundNearest: nearest multiple of r, ties up.
func RoundNearest(mins, r int) int {
	rem := mins % r
	if 2*rem >= r {
		return mins - rem + r
	}
	return mins - rem
}

func cloneRecords(rs []sm.Record) []sm.Record {
	out := make([]sm.Record, len(rs))
	for i, r := range rs {
		r2 := r
		r2.Summary = append([]string{}, r.Summary...)
		r2.Entries = make([]sm.Entry, len(r.Entries))
		for j, e := range r.Entries {
			e2 := e
			e2.Summary = append([]string{}, e.Summary...)
			r2.Entries[j] = e2
		}
		out[i] = r2
	}
	return out
}

func firstAt(rs []sm.Record, day int) int {
	for i, r := range rs {
		if sm.DayNumber(r.Date.Date) == day {
			return i
		}
	}
	return -1
}

func sortedAscending(rs []sm.Record) bool {
	for i := 1; i < len(rs); i++ {
		if sm.DayNumber(rs[i].Date.Date) < sm.DayNumber(rs[i-1].Date.Date) {
			return false
		}
	}
	return true
}

// insertNew creates a record at its chronological position.
func insertNew(rs []sm.Record, nr sm.Record) ([]sm.Record, int, bool) {
	day := sm.DayNumber(nr.Date.Date)
	pos := 0
	for i, r := range rs {
		if sm.DayNumber(r.Date.Date) <= day {
			pos = i + 1
		}
	}
	sorted := sortedAscending(rs)
	out := append(append(append([]sm.Record{}, rs[:pos]...), nr), rs[pos:]...)
	return out, pos, !sorted
}

// targetDay resolves the date flags.
func (o Op) targetDay(env CmdEnv) (int, bool) {
	today := sm.DayNumber(env.Today)
	if o.Date != "" {
		d, ok := sm.ParseDate(o.Date)
		if !ok {
			return 0, false
		}
		return sm.DayNumber(d.Date), true
	}
	switch o.Rel {
	case "yesterday":
		return today - 1, true
	case "tomorrow":
		return today + 1, true
	}
	return today, true
}

// opTime is the time value of start/stop/switch relative to the target day; ok=false with why.
func (o Op) opTime(env CmdEnv, day int) (t sm.TimeLit, ok bool, why string) {
	if o.Time != "" {
		tl, okp := sm.ParseTime(o.Time)
		if !okp {
			return tl, false, "invalid --time"
		}
		return tl, true, ""
	}
	mins := env.NowMins
	r := o.Round
	if r == "" {
		r = env.DefaultRound
	}
	if r != "" {
		rv, okr := roundingOf(r)
		if !okr {
			return t, false, "invalid rounding"
		}
		mins = RoundNearest(mins, rv)
	}
	today := sm.DayNumber(env.Today)
	switch day {
	case today:
	case today - 1:
		mins += 1440
	case today + 1:
		mins -= 1440
	default:
		return t, false, "a time is required for dates other than today, yesterday and tomorrow"
	}
	if mins < -1440 || mins > 2879 {
		return t, false, "the time cannot be represented relative to the record's date"
	}
	return sm.TimeLit{Mins: mins}, true, ""
}

func splitLines(s string) []string { return strings.Split(s, "\n") }

// summaryFor resolves --summary / --resume / --resume-nth for start and switch.
func (o Op) summaryFor(cur *sm.Record, prev *sm.Record) (sum []string, ok bool, why string, dontCare string) {
	if o.HasSum && (o.Resume || o.ResumeNth != 0) {
		return nil, false, "--summary conflicts with --resume", ""
	}
	if o.Resume && o.ResumeNth != 0 {
		return nil, false, "--resume conflicts with --resume-nth", ""
	}
	if o.HasSum {
		return splitLines(o.Summary), true, "", ""
	}
	if o.Resume {
		if cur != nil && len(cur.Entries) > 0 {
			return append([]string{}, cur.Entries[len(cur.Entries)-1].Summary...), true, "", ""
		}
		if prev != nil && len(prev.Entries) > 0 {
			return append([]string{}, prev.Entries[len(prev.Entries)-1].Summary...), true, "", ""
		}
		return []string{""}, true, "", ""
	}
	if o.ResumeNth != 0 {
		n := 0
		if cur != nil {
			n = len(cur.Entries)
		}
		i := o.ResumeNth - 1
		if o.ResumeNth < 0 {
			i = n + o.ResumeNth
		}
		if i < 0 || i >= n {
			return nil, false, "no such entry to resume", ""
		}
		return append([]string{}, cur.Entries[i].Summary...), true, "", ""
	}
	return []string{""}, true, "", ""
}

// parseTrackEntry reads the text given to `klog track` as one entry.
func parseTrackEntry(text string) (sm.Entry, bool) {
	lines := splitLines(text)
	doc := "2000-01-01\n    " + lines[0] + "\n"
	for _, l := range lines[1:] {
		doc += "        " + l + "\n"
	}
	res := sm.ParseLenient(doc)
	if res.Verdict != sm.Valid || len(res.Records) != 1 || len(res.Records[0].Entries) != 1 || len(res.Records[0].Summary) != 0 {
		return sm.Entry{}, false
	}
	e := res.Records[0].Entries[0]
	if len(e.Summary) != len(lines) {
		return sm.Entry{}, false
	}
	return e, true
}

func shouldOf(s string) (int, bool) {
	s = strings.TrimSuffix(s, "!")
	d, ok := sm.ParseDuration(s)
	return d.Mins, ok && !d.Big
}

func (env CmdEnv) newRecord(day int) sm.Record {
	nr := sm.Record{Date: sm.DateLit{Date: sm.FromDayNumber(day)}}
	if env.DefaultShould != "" {
		if m, ok := shouldOf(env.DefaultShould); ok {
			nr.HasShould, nr.Should = true, m
		}
	}
	return nr
}

// Apply is the model.
func (o Op) Apply(before []sm.Record, env CmdEnv) ModelResult {
	rs := cloneRecords(before)
	today := sm.DayNumber(env.Today)
	switch o.Kind {
	case "track":
		day, ok := o.targetDay(env)
		if !ok {
			return reject("invalid date")
		}
		e, ok := parseTrackEntry(o.Entry)
		if !ok {
			return reject("the text is not an entry")
		}
		i := firstAt(rs, day)
		if i >= 0 {
			if e.Kind == sm.KOpenRange && rs[i].OpenRange() >= 0 {
				return reject("second open range")
			}
			rs[i].Entries = append(rs[i].Entries, e)
			return ModelResult{OK: true, Records: rs, NewAt: -1}
		}
		nr := env.newRecord(day)
		nr.Entries = []sm.Entry{e}
		out, pos, anyPos := insertNew(rs, nr)
		return ModelResult{OK: true, Records: out, NewAt: pos, AnyPos: anyPos}

	case "create":
		day, ok := o.targetDay(env)
		if !ok {
			return reject("invalid date")
		}
		nr := env.newRecord(day)
		if o.Should != "" {
			m, ok := shouldOf(o.Should)
			if !ok {
				return reject("invalid should-total")
			}
			nr.HasShould, nr.Should = true, m
		}
		if o.HasSum {
			for _, l := range splitLines(o.Summary) {
				if l == "" || sm.IsBlankChar([]rune(l)[0]) {
					return reject("invalid record summary")
				}
			}
			nr.Summary = splitLines(o.Summary)
		}
		out, pos, anyPos := insertNew(rs, nr)
		return ModelResult{OK: true, Records: out, NewAt: pos, AnyPos: anyPos}

	case "start":
		day, ok := o.targetDay(env)
		if !ok {
			return reject("invalid date")
		}
		t, ok, why := o.opTime(env, day)
		if !ok {
			return reject(why)
		}
		i := firstAt(rs, day)
		// the previous record: the latest one dated before the target day
		var prev *sm.Record
		prevAmbiguous := false
		best := -1 << 30
		for k := range rs {
			d := sm.DayNumber(rs[k].Date.Date)
			if d < day {
				if d > best {
					best, prev, prevAmbiguous = d, &rs[k], false
				} else if d == best {
					prevAmbiguous = true
				}
			}
		}
		var cur *sm.Record
		if i >= 0 {
			cur = &rs[i]
		}
		sum, ok, why, _ := o.summaryFor(cur, prev)
		if i >= 0 && rs[i].OpenRange() >= 0 {
			return reject("there is already an open range")
		}
		if !ok {
			return reject(why)
		}
		if o.Resume && (cur == nil || len(cur.Entries) == 0) && prevAmbiguous {
			return ModelResult{DontCare: "--resume from the previous record, but several records share the latest earlier date", NewAt: -1}
		}
		e := sm.Entry{Kind: sm.KOpenRange, Start: t, Placeholder: 1, Dash: sm.DashSpaced, Summary: sum}
		if i >= 0 {
			rs[i].Entries = append(rs[i].Entries, e)
			return ModelResult{OK: true, Records: rs, NewAt: -1}
		}
		nr := env.newRecord(day)
		nr.Entries = []sm.Entry{e}
		out, pos, anyPos := insertNew(rs, nr)
		return ModelResult{OK: true, Records: out, NewAt: pos, AnyPos: anyPos}

	case "stop", "switch":
		day, ok := o.targetDay(env)
		if !ok {
			return reject("invalid date")
		}
		t, ok, why := o.opTime(env, day)
		if !ok {
			return reject(why)
		}
		i := firstAt(rs, day)
		if i < 0 && o.Kind == "stop" && o.Date == "" && o.Time == "" {
			// fall back to the day before, the time moves on by a day
			i = firstAt(rs, day-1)
			t.Mins += 1440
			if i >= 0 && t.Mins > 2879 {
				return reject("the time cannot be represented relative to the record's date")
			}
		}
		if i < 0 {
			return reject("no such record")
		}
		oi := rs[i].OpenRange()
		if oi < 0 {
			return reject("no open range")
		}
		or := rs[i].Entries[oi]
		if t.Mins < or.Start.Mins {
			return reject("end before start")
		}
		closed := sm.Entry{Kind: sm.KRange, Start: or.Start, End: t, Dash: or.Dash, Summary: append([]string{}, or.Summary...)}
		if o.Kind == "stop" && o.HasSum {
			add := splitLines(o.Summary)
			last := len(closed.Summary) - 1
			if add[0] != "" {
				if len(closed.Summary) == 1 && closed.Summary[0] == "" {
					closed.Summary[0] = add[0]
				} else {
					closed.Summary[last] += " " + add[0]
				}
			}
			closed.Summary = append(closed.Summary, add[1:]...)
		}
		rs[i].Entries[oi] = closed
		if o.Kind == "stop" {
			return ModelResult{OK: true, Records: rs, NewAt: -1}
		}
		sum, ok, why, _ := o.summaryFor(&rs[i], nil)
		if !ok {
			return reject(why)
		}
		rs[i].Entries = append(rs[i].Entries, sm.Entry{Kind: sm.KOpenRange, Start: t, Placeholder: 1, Dash: sm.DashSpaced, Summary: sum})
		return ModelResult{OK: true, Records: rs, NewAt: -1}

	case "pause":
		if o.Extend && o.HasSum {
			return reject("--extend conflicts with --summary")
		}
		i := firstAt(rs, today)
		if i < 0 {
			i = firstAt(rs, today-1)
		}
		if i < 0 {
			return reject("no such record")
		}
		oi := rs[i].OpenRange()
		if oi < 0 {
			return reject("no open range")
		}
		// whole minutes elapsed: the maximum over the ticks so far (the clock may jump back)
		elapsed := 0
		for _, t := range o.Ticks {
			if m := t / 60; m > elapsed {
				elapsed = m
			}
		}
		if o.Extend {
			pi := -1
			for k, e := range rs[i].Entries {
				if e.Kind == sm.KDuration && e.Dur.Mins <= 0 {
					pi = k
				}
			}
			if pi < 0 {
				return reject("no pause to extend")
			}
			e := rs[i].Entries[pi]
			rs[i].Entries[pi].Dur = sm.DurLit{Mins: e.Dur.Mins - elapsed}
			return ModelResult{OK: true, Records: rs, NewAt: -1}
		}
		sum := []string{""}
		if o.HasSum {
			sum = splitLines(o.Summary)
		}
		if !o.NoTags {
			tags := refTagStrings(sm.ScanSummaryTags(rs[i].Entries[oi].Summary))
			if len(tags) > 0 {
				last := len(sum) - 1
				if sum[last] != "" {
					sum[last] += " "
				}
				sum[last] += strings.Join(tags, " ")
			}
		}
		rs[i].Entries = append(rs[i].Entries, sm.Entry{Kind: sm.KDuration, Dur: sm.DurLit{Mins: -elapsed}, Summary: sum})
		return ModelResult{OK: true, Records: rs, NewAt: -1}
	}
	return ModelResult{DontCare: "unknown command", NewAt: -1}
}

// valueCanon renders records by value only (no notation): what C04 compares.
func valueCanon(rs []sm.Record) string {
	var b strings.Builder
	for _, r := range rs {
		should := 0
		if r.HasShould {
			should = r.Should
		}
		fmt.Fprintf(&b, "R %04d-%02d-%02d should=%d sum=%q\n", r.Date.Y, r.Date.M, r.Date.D, should, r.Summary)
		for _, e := range r.Entries {
			switch e.Kind {
			case sm.KDuration:
				fmt.Fprintf(&b, " D %d", e.Dur.Mins)
			case sm.KRange:
				fmt.Fprintf(&b, " G %d..%d", e.Start.Mins, e.End.Mins)
			case sm.KOpenRange:
				fmt.Fprintf(&b, " O %d", e.Start.Mins)
			}
			fmt.Fprintf(&b, " sum=%q\n", normSummary(e.Summary))
		}
	}
	return b.String()
}

// matchesModel compares the records read back with the model's prediction. A new record may sit at
// any position that keeps an ascending file ascending ("its chronological position": among records
// of the same date either side is chronological); in an unsorted file anywhere, as long as the old
// records keep their relative order.
func matchesModel(after []sm.Record, m ModelResult) bool {
	if m.NewAt < 0 {
		return valueCanon(after) == valueCanon(m.Records)
	}
	if len(after) != len(m.Records) {
		return false
	}
	nr := m.Records[m.NewAt]
	old := append(append([]sm.Record{}, m.Records[:m.NewAt]...), m.Records[m.NewAt+1:]...)
	for p := range after {
		if valueCanon(after[p:p+1]) != valueCanon([]sm.Record{nr}) {
			continue
		}
		rest := append(append([]sm.Record{}, after[:p]...), after[p+1:]...)
		if valueCanon(rest) == valueCanon(old) && (m.AnyPos || sortedAscending(after)) {
			return true
		}
	}
	return false
}
