// Package checks holds one decision procedure per property (C01..C20).
package checks

import (
	"fmt"
	"os"
	"time"

	"klogverif/fw"
	sm "klogverif/specmodel"
)

// harnessFatal aborts the worker with exit status 3: the harness itself is broken,
// no verdict about klog is produced.
func harnessFatal(format string, a ...any) {
	fmt.Fprintf(os.Stderr, "harness self-test failed: "+format+"\n", a...)
	os.Exit(3)
}

// calendarSelfTest cross-checks the specmodel calendar against Go's time package
// (two independent implementations) on every day of the years y0..y1.
func calendarSelfTest(c *fw.Ctx, y0, y1 int) {
	n := sm.DayNumber(sm.Date{Y: y0, M: 1, D: 1})
	t := time.Date(y0, 1, 1, 12, 0, 0, 0, time.UTC)
	for ; t.Year() <= y1; t, n = t.AddDate(0, 0, 1), n+1 {
		e := sm.FromDayNumber(n)
		if e.Y != t.Year() || e.M != int(t.Month()) || e.D != t.Day() {
			harnessFatal("day %d: specmodel %v, time %v", n, e, t)
		}
		wd := int(t.Weekday())
		if wd == 0 {
			wd = 7
		}
		if sm.Weekday(n) != wd {
			harnessFatal("weekday of %v: specmodel %d, time %d", e, sm.Weekday(n), wd)
		}
		iy, iw := t.ISOWeek()
		sy, sw := sm.ISOWeek(n)
		if iy != sy || iw != sw {
			harnessFatal("ISO week of %v: specmodel (%d,%d), time (%d,%d)", e, sy, sw, iy, iw)
		}
		if sm.DayNumber(e) != n || !sm.ValidDate(e.Y, e.M, e.D) {
			harnessFatal("round trip of day %d", n)
		}
	}
	c.Count("calendar_selftest_days", int64(n-sm.DayNumber(sm.Date{Y: y0, M: 1, D: 1})))
}

func tryRun(f func()) (bool, any, string) { return fw.Try(f) }

// span is a half-open index range of one family, the unit of work distribution.
type span struct {
	fam    int
	lo, hi int
}

// planSpans cuts each family (given by its size) into chunks of at most `chunk` cases.
func planSpans(sizes []int, chunk int) []span {
	var out []span
	for f, n := range sizes {
		for lo := 0; lo < n; lo += chunk {
			hi := lo + chunk
			if hi > n {
				hi = n
			}
			out = append(out, span{f, lo, hi})
		}
	}
	return out
}

// fixedNow is the default clock reading handed to commands whose result must not depend on it.
var fixedNow = time.Date(2022, 6, 15, 12, 0, 0, 0, time.UTC)

func dateAt(y, m, d, hh, mm int) time.Time {
	return time.Date(y, time.Month(m), d, hh, mm, 0, 0, time.UTC)
}
