//go:build verif

package checks

import (
	"fmt"
	"os"
	"path/filepath"
	"time"

	"klogverif/clidrv"
)

// followVsOneShot runs `klog today … --follow` over the given refresh instants (files[k] is the content of the file at
// refresh k) on ONE live context and compares what every refresh prints with a fresh one-shot run of the same command
// for that file at that instant. "" = equal.
func followVsOneShot(home, dir string, files []string, ticks []time.Time, mk func(follow bool, path string) clidrv.Runner) (why string, panicStack string) {
	path := filepath.Join(dir, "follow.klg")
	want := "\033[2J"
	wantCode, wantErr := 0, ""
	for k := range ticks {
		os.WriteFile(path, []byte(files[k]), 0644)
		r := clidrv.Exec(home, clidrv.Opts{Now: ticks[k]}, mk(false, path))
		if r.Panicked {
			return fmt.Sprintf("the one-shot run at %s panicked: %v", ticks[k].Format("2006-01-02 15:04"), r.PanicVal), r.Stack
		}
		want += "\033[H\033[J" + r.Stdout + "\nPress ^C to exit\n"
		if r.Code != 0 {
			wantCode, wantErr = r.Code, r.Err
			break
		}
	}
	os.WriteFile(path, []byte(files[0]), 0644)
	r := clidrv.Exec(home, clidrv.Opts{Now: ticks[0], TickTimes: ticks, OnTick: func(k int) { os.WriteFile(path, []byte(files[k]), 0644) }}, mk(true, path))
	if r.Panicked {
		return fmt.Sprintf("the --follow run panicked: %v", r.PanicVal), r.Stack
	}
	if r.Stdout != want || r.Code != wantCode || r.Err != wantErr {
		return fmt.Sprintf("over %d refreshes the --follow run printed (exit %d %s)\n%q\nbut fresh one-shot runs at those instants print (exit %d %s)\n%q", len(ticks), r.Code, r.Err, r.Stdout, wantCode, wantErr, want), ""
	}
	return "", ""
}
