//go:build verif

package checks

import "github.com/jotaen/klog/klog/verifrt/vrt"

// Outside the explicit map-order explorations (C11, C14, C19) every map range in klog runs in
// the canonical (sorted-key) order, so that every check is a deterministic function of its case.
func init() { vrt.MapCanonical = true }
