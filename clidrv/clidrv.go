//go:build verif

// Package clidrv runs the complete klog command line in-process: kong flag
// parsing, decoders, the command, the error prettifier and the exit code are all
// klog's own (klog.Run). Through the H1 context seam the harness owns only the
// clock, stdout and stdin; everything else (parser selection, file I/O, bookmark
// database, reconciler) is the real context.
package clidrv

import (
	"fmt"
	"os"
	"path/filepath"
	"strings"
	gotime "time"
	_ "time/tzdata" // zone rules compiled in (the zone dimension must not depend on the machine)

	"github.com/jotaen/klog/klog/app"
	tf "github.com/jotaen/klog/klog/app/cli/terminalformat"
	cliutil "github.com/jotaen/klog/klog/app/cli/util"
	klogmain "github.com/jotaen/klog/klog/app/main"

	"klogverif/fw"
)

type Opts struct {
	NumCpus    int               // 0 = 1
	ConfigFile string            // contents of config.ini
	Env        map[string]string // environment seen by the config reader (NO_COLOR, KLOG_DEBUG, EDITOR)
	Now        gotime.Time       // the clock reading (constant unless Clock is set)
	Clock      func() gotime.Time
	Stdin      []string // answers to ReadLine
	// TickTimes: repeating commands (klog pause) run len(TickTimes) loop iterations; during
	// iteration k the clock reads TickTimes[k] (before the loop it reads Now).
	TickTimes []gotime.Time
	// OnTick, if set, is called before loop iteration k (k = 0, 1, …) of a repeating command,
	// e.g. to change the file between two refreshes of `klog today --follow`.
	OnTick func(k int)
	// OSStdin, if non-nil, is what the process' standard input delivers while the command runs (klog reads piped
	// input from os.Stdin itself when no file argument is given); nil = an empty character device (/dev/null).
	OSStdin *string
}

// Zone dimension. klog's behaviour may depend on the wall-clock READING (year .. minute) of its clock, never on the
// zone that reading is expressed in. The checks state their clocks as UTC wall-clock readings; each call re-expresses
// its clock readings - same year .. nanosecond fields - in one of five fixed-offset zones, chosen by a hash of the
// reading and the command (deterministic per case, so replays see the same zone). Clocks given in another location
// (C13's daylight-saving family) are left alone. KV_ZONES=off disables it.
var zones = []*gotime.Location{gotime.UTC, gotime.FixedZone("UTC+2", 2*3600), gotime.FixedZone("UTC-5", -5*3600), gotime.FixedZone("UTC+14", 14*3600), gotime.FixedZone("UTC-11", -11*3600)}

var zonesOff = os.Getenv("KV_ZONES") == "off"

// Clock readings on these days are expressed in a zone that has a daylight-saving transition there (the day is 23 or
// 25 hours long, "24 hours ago" is not "yesterday"): the day after the spring transition and the day of the autumn one.
var dstDays = map[string]string{
	"2024-04-01": "Europe/Berlin", "2024-10-27": "Europe/Berlin", "2024-10-28": "Europe/Berlin",
	"2026-03-30": "Europe/Berlin", "2026-10-25": "Europe/Berlin",
	"2024-03-11": "America/New_York", "2024-11-03": "America/New_York",
}

func zoneFor(now gotime.Time, key string) *gotime.Location {
	if zonesOff || now.Location() != gotime.UTC {
		return nil
	}
	if name, ok := dstDays[now.Format("2006-01-02")]; ok {
		if loc, err := gotime.LoadLocation(name); err == nil {
			return loc
		}
	}
	h := fw.HashMix(fw.HashString(key), uint64(now.Unix()))
	return zones[int(h%uint64(len(zones)))]
}

func rezone(t gotime.Time, z *gotime.Location) gotime.Time {
	if z == nil || t.Location() != gotime.UTC {
		return t
	}
	return gotime.Date(t.Year(), t.Month(), t.Day(), t.Hour(), t.Minute(), t.Second(), t.Nanosecond(), z)
}

func rezoneOpts(o *Opts, key string) {
	z := zoneFor(o.Now, key)
	if z == nil {
		return
	}
	// a reading that does not exist in the zone (skipped hour) would come out as another reading: keep UTC then
	for _, t := range append([]gotime.Time{o.Now}, o.TickTimes...) {
		if r := rezone(t, z); r.Hour() != t.Hour() || r.Minute() != t.Minute() || r.Day() != t.Day() {
			return
		}
	}
	o.Now = rezone(o.Now, z)
	ticks := make([]gotime.Time, len(o.TickTimes))
	for i, t := range o.TickTimes {
		ticks[i] = rezone(t, z)
	}
	o.TickTimes = ticks
	if o.Clock != nil {
		inner := o.Clock
		o.Clock = func() gotime.Time { return rezone(inner(), z) }
	}
}

// withStdin runs f with os.Stdin replaced as o.OSStdin says (workers are single-threaded per case).
func withStdin(o Opts, f func()) {
	old := os.Stdin
	defer func() { os.Stdin = old }()
	var in *os.File
	var err error
	if o.OSStdin == nil {
		in, err = os.Open(os.DevNull)
	} else {
		p := filepath.Join(fw.Scratch(), "stdin.txt")
		if err = os.WriteFile(p, []byte(*o.OSStdin), 0644); err == nil {
			in, err = os.Open(p)
		}
	}
	if err != nil {
		panic(err)
	}
	defer in.Close()
	os.Stdin = in
	f()
}

type Result struct {
	Code      int
	Stdout    string
	Err       string // the rendered error klog's main would print
	Panicked  bool
	PanicVal  any
	Stack     string
	ConfigErr string
}

type wrapCtx struct {
	app.Context
	o        *Opts
	out      *strings.Builder
	NowCalls int
}

func (w *wrapCtx) Print(s string) { w.out.WriteString(s) }

func (w *wrapCtx) Now() gotime.Time {
	w.NowCalls++
	if w.o.Clock != nil {
		return w.o.Clock()
	}
	return w.o.Now
}

func (w *wrapCtx) ReadLine() (string, app.Error) {
	if len(w.o.Stdin) == 0 {
		return "", app.NewErrorWithCode(app.IO_ERROR, "Cannot process input", "Reading from stdin failed", nil)
	}
	l := w.o.Stdin[0]
	w.o.Stdin = w.o.Stdin[1:]
	return l, nil
}

// Home creates (once) and returns a scratch klog config folder.
func Home(name string) string {
	d := filepath.Join(fw.Scratch(), name)
	os.MkdirAll(d, 0755)
	return d
}

// Run invokes the klog CLI with the given arguments.
func Run(home string, o Opts, args ...string) (res Result) {
	n := o.NumCpus
	if n == 0 {
		n = 1
	}
	cfg, cErr := app.NewConfig(
		app.FromDeterminedValues{NumCpus: n},
		app.FromEnvVars{GetVar: func(k string) string { return o.Env[k] }},
		app.FromConfigFile{FileContents: o.ConfigFile},
	)
	if cErr != nil {
		return Result{Code: app.CONFIG_ERROR.ToInt(), ConfigErr: cErr.Error()}
	}
	homeFile := app.NewFileOrPanic(home)
	out := &strings.Builder{}
	opts := o
	rezoneOpts(&opts, strings.Join(args, "\x00"))
	klogmain.ContextWrapper = func(c app.Context) app.Context { return &wrapCtx{Context: c, o: &opts, out: out} }
	cliutil.VerifRepeatInterval = gotime.Microsecond
	cliutil.VerifRepeatStop = func(done int64) bool {
		if int(done) >= len(opts.TickTimes) {
			return true
		}
		opts.Now = opts.TickTimes[done]
		if opts.OnTick != nil {
			opts.OnTick(int(done))
		}
		return false
	}
	withStdin(o, func() {
		res.Panicked, res.PanicVal, res.Stack = fw.Try(func() {
			code, err := klogmain.Run(homeFile, app.Meta{Specification: "spec", License: "license", Version: "v0", SrcHash: "abcdef1"}, cfg, args)
			res.Code = code
			if err != nil {
				res.Err = err.Error()
			}
		})
	})
	res.Stdout = out.String()
	return res
}

// WriteFile writes a scratch file and returns its path.
func WriteFile(dir, name, contents string) string {
	p := filepath.Join(dir, name)
	if err := os.WriteFile(p, []byte(contents), 0644); err != nil {
		panic(err)
	}
	return p
}

func ReadFile(path string) string {
	b, err := os.ReadFile(path)
	if err != nil {
		return "\x00<unreadable: " + err.Error() + ">"
	}
	return string(b)
}

// Runner is implemented by every klog command struct (cli.Print, cli.Total, …).
type Runner interface {
	Run(app.Context) app.Error
}

// Exec runs one command struct directly (no kong flag parsing) on the same wrapped real
// context klog.Run builds, and maps the outcome to exit code and rendered error exactly as
// klog.Run does. Used for bulk sweeps where kong's per-call reflection would dominate.
func Exec(home string, o Opts, cmd Runner) (res Result) {
	n := o.NumCpus
	if n == 0 {
		n = 1
	}
	cfg, cErr := app.NewConfig(
		app.FromDeterminedValues{NumCpus: n},
		app.FromEnvVars{GetVar: func(k string) string { return o.Env[k] }},
		app.FromConfigFile{FileContents: o.ConfigFile},
	)
	if cErr != nil {
		return Result{Code: app.CONFIG_ERROR.ToInt(), ConfigErr: cErr.Error()}
	}
	out := &strings.Builder{}
	opts := o
	rezoneOpts(&opts, fmt.Sprintf("%T", cmd))
	styler := tf.NewStyler(cfg.ColourScheme.Value())
	var ctx app.Context = &wrapCtx{Context: app.NewContext(app.NewFileOrPanic(home), app.Meta{Version: "v0"}, styler, cfg), o: &opts, out: out}
	cliutil.VerifRepeatInterval = gotime.Microsecond
	cliutil.VerifRepeatStop = func(done int64) bool {
		if int(done) >= len(opts.TickTimes) {
			return true
		}
		opts.Now = opts.TickTimes[done]
		if opts.OnTick != nil {
			opts.OnTick(int(done))
		}
		return false
	}
	withStdin(o, func() {
		res.Panicked, res.PanicVal, res.Stack = fw.Try(func() {
			rErr := cmd.Run(ctx)
			if rErr == nil {
				return
			}
			res.Code = rErr.Code().ToInt()
			if pe, ok := rErr.(app.ParserErrors); ok {
				res.Err = cliutil.PrettifyParsingError(pe, styler).Error()
			} else {
				res.Err = cliutil.PrettifyAppError(rErr, cfg.IsDebug.Value()).Error()
			}
		})
	})
	res.Stdout = out.String()
	return res
}

// RealContext returns klog's own application context (real file I/O, real parser selection) for direct calls
// of context operations such as ReconcileFile; the clock is the harness' (o.Now).
func RealContext(home string, o Opts) app.Context {
	n := o.NumCpus
	if n == 0 {
		n = 1
	}
	cfg, cErr := app.NewConfig(
		app.FromDeterminedValues{NumCpus: n},
		app.FromEnvVars{GetVar: func(k string) string { return o.Env[k] }},
		app.FromConfigFile{FileContents: o.ConfigFile},
	)
	if cErr != nil {
		panic(cErr)
	}
	opts := o
	return &wrapCtx{Context: app.NewContext(app.NewFileOrPanic(home), app.Meta{Version: "v0"}, tf.NewStyler(cfg.ColourScheme.Value()), cfg), o: &opts, out: &strings.Builder{}}
}
