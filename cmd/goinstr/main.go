// goinstr derives, from the CURRENT sources under /repo, a build overlay in which
//   - every `range` over a map-typed expression in non-test klog packages iterates through
//     vrt.MapSeq (so the harness owns map iteration order), and
//   - in the parser/domain/service packages, goroutines, channel operations and the sync
//     primitives are routed through the vrt cooperative scheduler.
//
// The vrt runtime itself is added to the klog module as a virtual package.
// Because the rewrite is mechanical and re-derived at check time, an edited parallel.go or
// style.go is instrumented as edited.
//
// usage: goinstr -out <dir> [-mode full|maps|none]     (writes <dir>/overlay.json and <dir>/report.json)
package main

import (
	"bytes"
	"encoding/json"
	"flag"
	"fmt"
	"go/ast"
	"go/format"
	"go/token"
	"go/types"
	"os"
	"path/filepath"
	"sort"
	"strings"

	"golang.org/x/tools/go/ast/astutil"
	"golang.org/x/tools/go/packages"
)

const (
	vrtPath = "github.com/jotaen/klog/klog/verifrt/vrt"
)

var repo = "/repo"

type report struct {
	Mode           string   `json:"mode"`
	MapRanges      []string `json:"map_ranges"`
	Concurrency    []string `json:"concurrency_sites"`
	Unsupported    []string `json:"unsupported"`
	FilesRewritten []string `json:"files_rewritten"`
}

func main() {
	out := flag.String("out", ".work/instr", "output directory")
	mode := flag.String("mode", "full", "full | maps | none")
	flag.StringVar(&repo, "repo", "/repo", "the klog tree to instrument")
	flag.Parse()
	if abs, err := filepath.Abs(*out); err == nil {
		*out = abs
	}
	os.MkdirAll(*out, 0755)
	rep := report{Mode: *mode}
	vdir := os.Getenv("KV_VERIF_DIR")
	if vdir == "" {
		vdir = "/verif"
	}
	overlay := map[string]string{
		filepath.Join(repo, "klog/verifrt/vrt/vrt.go"): filepath.Join(vdir, "vrt/vrt.go"),
	}
	if *mode != "none" {
		cfg := &packages.Config{
			Mode:       packages.NeedName | packages.NeedFiles | packages.NeedSyntax | packages.NeedTypes | packages.NeedTypesInfo | packages.NeedImports | packages.NeedDeps | packages.NeedCompiledGoFiles,
			Dir:        repo,
			BuildFlags: []string{"-tags=verif"},
			Fset:       token.NewFileSet(),
		}
		pkgs, err := packages.Load(cfg, "./klog/...")
		if err != nil {
			fmt.Fprintln(os.Stderr, "goinstr: load:", err)
			os.Exit(1)
		}
		bad := false
		for _, p := range pkgs {
			for _, e := range p.Errors {
				fmt.Fprintln(os.Stderr, "goinstr:", e)
				bad = true
			}
		}
		if bad {
			os.Exit(1)
		}
		sort.Slice(pkgs, func(i, j int) bool { return pkgs[i].PkgPath < pkgs[j].PkgPath })
		for _, p := range pkgs {
			conc := *mode == "full" && concurrencyPackage(p.PkgPath)
			for i, f := range p.Syntax {
				name := p.CompiledGoFiles[i]
				if strings.HasSuffix(name, "_test.go") || !strings.HasPrefix(name, repo+"/") {
					continue
				}
				rw := &rewriter{fset: cfg.Fset, info: p.TypesInfo, file: name, rep: &rep, conc: conc}
				if rw.rewrite(f) {
					var buf bytes.Buffer
					if err := format.Node(&buf, cfg.Fset, f); err != nil {
						fmt.Fprintln(os.Stderr, "goinstr: print", name, err)
						os.Exit(1)
					}
					dst := filepath.Join(*out, strings.ReplaceAll(strings.TrimPrefix(name, repo+"/"), "/", "__"))
					os.WriteFile(dst, buf.Bytes(), 0644)
					overlay[name] = dst
					rep.FilesRewritten = append(rep.FilesRewritten, strings.TrimPrefix(name, repo+"/"))
				}
			}
		}
	}
	ob, _ := json.MarshalIndent(map[string]any{"Replace": overlay}, "", " ")
	os.WriteFile(filepath.Join(*out, "overlay.json"), ob, 0644)
	rb, _ := json.MarshalIndent(rep, "", " ")
	os.WriteFile(filepath.Join(*out, "report.json"), rb, 0644)
	fmt.Printf("goinstr: mode=%s map_ranges=%d concurrency_sites=%d unsupported=%d files=%d\n", *mode, len(rep.MapRanges), len(rep.Concurrency), len(rep.Unsupported), len(rep.FilesRewritten))
}

// concurrencyPackage: where goroutines/channels/sync are routed through the scheduler.
// The application layer (signal handling, update check) is deliberately left native.
func concurrencyPackage(path string) bool {
	p := strings.TrimPrefix(path, "github.com/jotaen/klog/klog")
	return p == "" || strings.HasPrefix(p, "/parser") || strings.HasPrefix(p, "/service")
}

type rewriter struct {
	fset    *token.FileSet
	info    *types.Info
	file    string
	rep     *report
	conc    bool
	changed bool
}

func (r *rewriter) pos(n ast.Node) string {
	p := r.fset.Position(n.Pos())
	return fmt.Sprintf("%s:%d", strings.TrimPrefix(p.Filename, repo+"/"), p.Line)
}

func vrtSel(name string) ast.Expr {
	return &ast.SelectorExpr{X: ast.NewIdent("vrt"), Sel: ast.NewIdent(name)}
}

func (r *rewriter) isChan(e ast.Expr) bool {
	t := r.info.TypeOf(e)
	if t == nil {
		return false
	}
	_, ok := t.Underlying().(*types.Chan)
	return ok
}

func (r *rewriter) isMap(e ast.Expr) bool {
	t := r.info.TypeOf(e)
	if t == nil {
		return false
	}
	_, ok := t.Underlying().(*types.Map)
	return ok
}

func (r *rewriter) isBuiltin(e ast.Expr, name string) bool {
	id, ok := e.(*ast.Ident)
	if !ok || id.Name != name {
		return false
	}
	_, isB := r.info.Uses[id].(*types.Builtin)
	return isB
}

func (r *rewriter) rewrite(f *ast.File) bool {
	counter := 0
	astutil.Apply(f, func(c *astutil.Cursor) bool {
		switch n := c.Node().(type) {
		case *ast.RangeStmt:
			if r.isMap(n.X) {
				r.rep.MapRanges = append(r.rep.MapRanges, r.pos(n))
				n.X = &ast.CallExpr{Fun: vrtSel("MapSeq"), Args: []ast.Expr{n.X}}
				r.changed = true
			} else if r.conc && r.isChan(n.X) {
				r.rep.Concurrency = append(r.rep.Concurrency, r.pos(n)+" range-chan")
				n.X = &ast.CallExpr{Fun: &ast.SelectorExpr{X: n.X, Sel: ast.NewIdent("All")}}
				r.changed = true
			}
		case *ast.SelectStmt:
			if r.conc {
				r.rep.Unsupported = append(r.rep.Unsupported, r.pos(n)+" select")
			}
		}
		return true
	}, func(c *astutil.Cursor) bool {
		if !r.conc {
			return true
		}
		switch n := c.Node().(type) {
		case *ast.GoStmt:
			r.rep.Concurrency = append(r.rep.Concurrency, r.pos(n)+" go")
			counter++
			// evaluate the function value and the arguments now, run the call in a vrt thread
			var lhs []ast.Expr
			var rhs []ast.Expr
			fn := ast.NewIdent(fmt.Sprintf("vrtF%d", counter))
			lhs = append(lhs, fn)
			rhs = append(rhs, n.Call.Fun)
			var args []ast.Expr
			for i, a := range n.Call.Args {
				id := ast.NewIdent(fmt.Sprintf("vrtA%d_%d", counter, i))
				lhs = append(lhs, id)
				rhs = append(rhs, a)
				args = append(args, id)
			}
			call := &ast.CallExpr{Fun: fn, Args: args, Ellipsis: n.Call.Ellipsis}
			blk := &ast.BlockStmt{List: []ast.Stmt{
				&ast.AssignStmt{Lhs: lhs, Tok: token.DEFINE, Rhs: rhs},
				&ast.ExprStmt{X: &ast.CallExpr{Fun: vrtSel("Go"), Args: []ast.Expr{
					&ast.FuncLit{Type: &ast.FuncType{Params: &ast.FieldList{}}, Body: &ast.BlockStmt{List: []ast.Stmt{&ast.ExprStmt{X: call}}}},
				}}},
			}}
			c.Replace(blk)
			r.changed = true
		case *ast.SendStmt:
			r.rep.Concurrency = append(r.rep.Concurrency, r.pos(n)+" send")
			c.Replace(&ast.ExprStmt{X: &ast.CallExpr{Fun: &ast.SelectorExpr{X: n.Chan, Sel: ast.NewIdent("Send")}, Args: []ast.Expr{n.Value}}})
			r.changed = true
		case *ast.UnaryExpr:
			if n.Op == token.ARROW {
				r.rep.Concurrency = append(r.rep.Concurrency, r.pos(n)+" recv")
				method := "Recv1"
				if as, ok := c.Parent().(*ast.AssignStmt); ok && len(as.Lhs) == 2 && len(as.Rhs) == 1 {
					method = "Recv"
				}
				if vs, ok := c.Parent().(*ast.ValueSpec); ok && len(vs.Names) == 2 && len(vs.Values) == 1 {
					method = "Recv"
				}
				c.Replace(&ast.CallExpr{Fun: &ast.SelectorExpr{X: n.X, Sel: ast.NewIdent(method)}})
				r.changed = true
			}
		case *ast.CallExpr:
			if r.isBuiltin(n.Fun, "close") && len(n.Args) == 1 {
				r.rep.Concurrency = append(r.rep.Concurrency, r.pos(n)+" close")
				c.Replace(&ast.CallExpr{Fun: &ast.SelectorExpr{X: n.Args[0], Sel: ast.NewIdent("Close")}})
				r.changed = true
			} else if r.isBuiltin(n.Fun, "make") && len(n.Args) >= 1 {
				if ct, ok := n.Args[0].(*ast.ChanType); ok {
					r.rep.Concurrency = append(r.rep.Concurrency, r.pos(n)+" make-chan")
					var capArg ast.Expr = &ast.BasicLit{Kind: token.INT, Value: "0"}
					if len(n.Args) == 2 {
						capArg = n.Args[1]
					}
					c.Replace(&ast.CallExpr{Fun: &ast.IndexExpr{X: vrtSel("MakeChan"), Index: ct.Value}, Args: []ast.Expr{capArg}})
					r.changed = true
				}
			} else if r.isBuiltin(n.Fun, "len") || r.isBuiltin(n.Fun, "cap") {
				if len(n.Args) == 1 && r.isChan(n.Args[0]) {
					r.rep.Unsupported = append(r.rep.Unsupported, r.pos(n)+" len/cap of channel")
				}
			}
		case *ast.ChanType:
			// any remaining channel type (declarations, parameters, fields)
			if _, isMake := c.Parent().(*ast.CallExpr); !isMake {
				c.Replace(&ast.StarExpr{X: &ast.IndexExpr{X: vrtSel("Chan"), Index: n.Value}})
				r.changed = true
			}
		case *ast.SelectorExpr:
			if id, ok := n.X.(*ast.Ident); ok {
				if pn, ok := r.info.Uses[id].(*types.PkgName); ok && pn.Imported().Path() == "sync" {
					switch n.Sel.Name {
					case "WaitGroup", "Mutex":
						r.rep.Concurrency = append(r.rep.Concurrency, r.pos(n)+" sync."+n.Sel.Name)
						c.Replace(vrtSel(n.Sel.Name))
						r.changed = true
					default:
						r.rep.Unsupported = append(r.rep.Unsupported, r.pos(n)+" sync."+n.Sel.Name)
					}
				} else if ok && pn.Imported().Path() == "sync/atomic" {
					r.rep.Unsupported = append(r.rep.Unsupported, r.pos(n)+" sync/atomic")
				}
			}
		}
		return true
	})
	if r.changed {
		// drop comments (they would be re-attached at wrong places by the printer), except build constraints
		var keep []*ast.CommentGroup
		for _, cg := range f.Comments {
			if cg.End() < f.Package {
				keep = append(keep, cg)
			}
		}
		f.Comments = keep
		astutil.AddImport(r.fset, f, vrtPath)
		if !astutil.UsesImport(f, "sync") {
			astutil.DeleteImport(r.fset, f, "sync")
		}
	}
	return r.changed
}
