// kv is the verification driver: `kv run <id> <tier>`.
package main

import (
	_ "klogverif/checks"
	"klogverif/fw"
)

func main() { fw.Main() }
