// racepass: the free-running counterpart of C07's schedule exploration. The cooperative
// scheduler's hand-offs are happens-before edges and blind the race detector, so the same
// parse bodies run here on the UNINSTRUMENTED sources, built with -race, from many goroutines
// at once. A reported race voids the assumption "schedule points at synchronisation operations
// suffice" and is reported against C07.
package main

import (
	"fmt"
	"os"
	"strings"
	"sync"

	"github.com/jotaen/klog/klog/parser"
)

func texts() []string {
	long := ""
	for d := 1; d <= 12; d++ {
		long += fmt.Sprintf("2020-01-%02d\n    %dh é中\n\n", d, d)
	}
	bad := strings.ReplaceAll(long, "    3h", "     3h")
	return []string{long, bad, strings.ReplaceAll(long, "\n", "\r\n"), "x\n\ny\n\n2020-01-01\n\nz\n"}
}

func main() {
	iters := 300
	if len(os.Args) > 1 {
		fmt.Sscanf(os.Args[1], "%d", &iters)
	}
	var wg sync.WaitGroup
	total := 0
	for g := 0; g < 8; g++ {
		wg.Add(1)
		go func(g int) {
			defer wg.Done()
			for i := 0; i < iters; i++ {
				for _, t := range texts() {
					for _, n := range []int{2, 3, 5, 8} {
						rs, bs, errs := parser.NewParallelParser(n).Parse(t)
						srs, _, serrs := parser.NewSerialParser().Parse(t)
						if len(rs) != len(srs) || len(errs) != len(serrs) || len(rs) != len(bs) {
							fmt.Println("MISMATCH under free-running schedule")
							os.Exit(3)
						}
					}
				}
			}
		}(g)
	}
	wg.Wait()
	total = 8 * iters * len(texts()) * 4
	fmt.Printf("racepass ok: %d free-running parallel parses, no race reported\n", total)
}
