// Package docgen enumerates klog documents: Cartesian products over the spec grammar
// (structure x values x formatting), value sweeps, and rule-violating edits of valid
// documents. Every family is indexable (At(i)), duplicate-free by construction, and
// carries — for the families built from the grammar — the denotation the text has by
// construction, as a third witness besides specmodel and klog.
package docgen

import (
	"strings"

	sm "klogverif/specmodel"
)

// ---------------------------------------------------------------- abstract documents

type GEntry struct {
	Value   string   // the value literal as written
	Den     sm.Entry // denotation of the value (Kind, Dur / Start / End, Dash, Placeholder)
	Summary []string // first line ("" = none) + continuation lines
}

type GRecord struct {
	Date       string
	Should     string // "" or e.g. "(8h!)"
	ShouldMins int
	Summary    []string
	Entries    []GEntry
	Unit       string // indentation unit
	HeadGap    string // blanks between date and should-total
}

type Layout struct {
	EOL     int // 0 = LF, 1 = CRLF, 2 = alternating starting with LF, 3 = alternating starting with CRLF
	Before  []string
	Between []string // blank-line texts between records (at least one)
	After   []string
	FinalNL bool
}

var DefaultLayout = Layout{EOL: 0, Between: []string{""}, FinalNL: true}

type Doc struct {
	Records []GRecord
	Layout  Layout
}

// Lines renders the logical lines (without line endings).
func (d Doc) Lines() []string {
	var out []string
	out = append(out, d.Layout.Before...)
	for i, r := range d.Records {
		if i > 0 {
			out = append(out, d.Layout.Between...)
		}
		h := r.Date
		if r.Should != "" {
			gap := r.HeadGap
			if gap == "" {
				gap = " "
			}
			h += gap + r.Should
		}
		out = append(out, h)
		out = append(out, r.Summary...)
		u := r.Unit
		if u == "" {
			u = "    "
		}
		for _, e := range r.Entries {
			l := u + e.Value
			if len(e.Summary) > 0 && e.Summary[0] != "" {
				l += " " + e.Summary[0]
			}
			out = append(out, l)
			for _, s := range e.Summary[min(1, len(e.Summary)):] {
				out = append(out, u+u+s)
			}
		}
	}
	out = append(out, d.Layout.After...)
	return out
}

func eolFor(mode, i int) string {
	switch mode {
	case 0:
		return "\n"
	case 1:
		return "\r\n"
	case 2:
		if i%2 == 0 {
			return "\n"
		}
		return "\r\n"
	default:
		if i%2 == 0 {
			return "\r\n"
		}
		return "\n"
	}
}

// Join renders lines with the layout's line endings.
func Join(lines []string, eolMode int, finalNL bool) string {
	var b strings.Builder
	for i, l := range lines {
		b.WriteString(l)
		if i < len(lines)-1 || finalNL {
			b.WriteString(eolFor(eolMode, i))
		}
	}
	return b.String()
}

func (d Doc) Text() string { return Join(d.Lines(), d.Layout.EOL, d.Layout.FinalNL) }

// Denotation returns what the document denotes by construction.
func (d Doc) Denotation() []sm.Record {
	var out []sm.Record
	for _, r := range d.Records {
		dl, _ := sm.ParseDate(r.Date)
		rec := sm.Record{Date: dl, HasShould: r.Should != "", Should: r.ShouldMins, Summary: r.Summary}
		for _, e := range r.Entries {
			en := e.Den
			if len(e.Summary) == 0 {
				en.Summary = []string{""}
			} else {
				en.Summary = e.Summary
			}
			rec.Entries = append(rec.Entries, en)
		}
		out = append(out, rec)
	}
	return out
}

// ---------------------------------------------------------------- value menus

func dur(lit string, mins int, plus bool, zs int) GEntry {
	return GEntry{Value: lit, Den: sm.Entry{Kind: sm.KDuration, Dur: sm.DurLit{Mins: mins, Plus: plus, ZeroSign: zs}}}
}

func rng(lit string, s, e int, s12, e12 bool, dash int) GEntry {
	return GEntry{Value: lit, Den: sm.Entry{Kind: sm.KRange, Start: sm.TimeLit{Mins: s, TwelveH: s12}, End: sm.TimeLit{Mins: e, TwelveH: e12}, Dash: dash}}
}

func open(lit string, s int, s12 bool, dash, ph int) GEntry {
	return GEntry{Value: lit, Den: sm.Entry{Kind: sm.KOpenRange, Start: sm.TimeLit{Mins: s, TwelveH: s12}, Dash: dash, Placeholder: ph}}
}

// EntryMenu: the ten entry values of family FA.
var EntryMenu = []GEntry{
	dur("1h", 60, false, 0),
	dur("-30m", -30, false, 0),
	dur("+0m", 0, true, 1),
	rng("8:00 - 9:00", 480, 540, false, false, sm.DashSpaced),
	rng("8:00-9:00", 480, 540, false, false, sm.DashNone),
	rng("<23:00 - 1:00", -60, 60, false, false, sm.DashSpaced),
	rng("22:00 - 24:00", 1320, 1440, false, false, sm.DashSpaced),
	rng("11:00pm - 12:30am>", 1380, 1470, true, true, sm.DashSpaced),
	open("8:00 - ?", 480, false, sm.DashSpaced, 1),
	open("8:00-???", 480, false, sm.DashNone, 3),
}

// More entry values used by the notation sweeps (C09) and formatting families.
var EntryMenuExtra = []GEntry{
	dur("90m", 90, false, 0),
	dur("0h5m", 5, false, 0),
	dur("-0h", 0, false, -1),
	dur("+1h", 60, true, 0),
	dur("120h59m", 7259, false, 0),
	dur("0m", 0, false, 0),
	rng("08:00 - 09:05", 480, 545, false, false, sm.DashSpaced),
	rng("12:05am - 12:05pm", 5, 725, true, true, sm.DashSpaced),
	rng("<24:00 - 24:00", 0, 1440, false, false, sm.DashSpaced),
	rng("0:00 - 0:00", 0, 0, false, false, sm.DashSpaced),
	rng("<0:00-23:59>", -1440, 2879, false, false, sm.DashNone),
	rng("8:00  -  9:00", 480, 540, false, false, sm.DashSpaced),
	rng("8:00- 9:00", 480, 540, false, false, sm.DashIrregular),
	rng("8:00 -9:00", 480, 540, false, false, sm.DashIrregular),
	rng("1:00pm - 13:30", 780, 810, true, false, sm.DashSpaced),
	open("<23:30 - ??", -30, false, sm.DashSpaced, 2),
	open("0:15>-?", 1455, false, sm.DashNone, 1),
	open("9:00am - ????", 540, true, sm.DashSpaced, 4),
}

// EntrySummaryMenu: none, same line, same+continuation, first-empty+continuation, unicode+tag.
var EntrySummaryMenu = [][]string{
	nil,
	{"Did something"},
	{"Started", "and went on"},
	{"", "only on the next line"},
	{"Süßes #日本語 #tag=\"v 1\" ✓", "  aligned – text"},
	{"\ufffd in the \ufffd middle 100%s %d%%", "\ufffd 5%"},
}

// EntrySummaryMenuExtra: further summary shapes used by thorough tiers and the notation sweep
// (U+FFFD is an ordinary, valid character).
var EntrySummaryMenuExtra = [][]string{
	{"replacement \ufffd character", "and \ufffd again"},
	{"\ufffd"},
}

var DateMenu = []string{"2020-01-01", "1999/12/31", "2020-02-29"}

type shouldOpt struct {
	lit  string
	mins int
}

var ShouldMenu = []shouldOpt{{"", 0}, {"(8h!)", 480}, {"(-30m!)", -30}}

var RecordSummaryMenu = [][]string{
	nil,
	{"Summary line"},
	{"First #tag line 5% %v", "1h looks like an entry, 2020-01-01 like a date"},
}

// ---------------------------------------------------------------- index decoding

// Radix decodes an index into digits for the given bases (first base varies fastest).
func Radix(i int, bases ...int) []int {
	out := make([]int, len(bases))
	for k, b := range bases {
		out[k] = i % b
		i /= b
	}
	return out
}

func Product(bases ...int) int {
	n := 1
	for _, b := range bases {
		n *= b
	}
	return n
}

// entrySeqCount: number of entry sequences of length 0..maxLen over `opts` options.
func entrySeqCount(opts, maxLen int) int {
	n, p := 0, 1
	for l := 0; l <= maxLen; l++ {
		n += p
		p *= opts
	}
	return n
}

// entrySeq decodes sequence number i (0 = empty; then all of length 1, 2, …).
func entrySeq(i, opts, maxLen int) []int {
	p := 1
	for l := 0; l <= maxLen; l++ {
		if i < p {
			out := make([]int, l)
			for k := 0; k < l; k++ {
				out[k] = i % opts
				i /= opts
			}
			return out
		}
		i -= p
		p *= opts
	}
	return nil
}

// RecordSpace describes a product of record options.
type RecordSpace struct {
	Dates      []string
	Shoulds    []shouldOpt
	Summaries  [][]string
	Entries    []GEntry
	ESummaries [][]string
	MaxEntries int
}

func (s RecordSpace) Count() int {
	return len(s.Dates) * len(s.Shoulds) * len(s.Summaries) * entrySeqCount(len(s.Entries)*len(s.ESummaries), s.MaxEntries)
}

func (s RecordSpace) At(i int) GRecord {
	nes := entrySeqCount(len(s.Entries)*len(s.ESummaries), s.MaxEntries)
	d := Radix(i, len(s.Dates), len(s.Shoulds), len(s.Summaries), nes)
	r := GRecord{Date: s.Dates[d[0]], Should: s.Shoulds[d[1]].lit, ShouldMins: s.Shoulds[d[1]].mins, Summary: s.Summaries[d[2]]}
	for _, o := range entrySeq(d[3], len(s.Entries)*len(s.ESummaries), s.MaxEntries) {
		e := s.Entries[o%len(s.Entries)]
		e.Summary = s.ESummaries[o/len(s.Entries)]
		r.Entries = append(r.Entries, e)
	}
	return r
}

// FA1: single-record documents, full menus.
func FA1(maxEntries int) RecordSpace {
	return RecordSpace{DateMenu, ShouldMenu, RecordSummaryMenu, EntryMenu, EntrySummaryMenu, maxEntries}
}

// FA2: reduced per-record menu for multi-record documents.
func FA2(nEntryValues, nESummaries, maxEntries int) RecordSpace {
	vals := []GEntry{EntryMenu[0], EntryMenu[1], EntryMenu[3], EntryMenu[5], EntryMenu[8], EntryMenu[7], EntryMenu[2], EntryMenu[4], EntryMenu[6], EntryMenu[9]}
	return RecordSpace{DateMenu[:2], ShouldMenu[:2], RecordSummaryMenu[:2], vals[:nEntryValues], EntrySummaryMenu[:nESummaries], maxEntries}
}

// ---------------------------------------------------------------- formatting product (FB)

var blankRuns = [][]string{nil, {""}, {"  "}, {"\t", ""}}
var betweenRuns = [][]string{{""}, {"", ""}, {" "}, {"", "\t"}}
var afterRuns = [][]string{nil, {""}, {"   ", ""}}
var headGaps = []string{" ", "  "}

// FBShapes: structurally diverse two-record documents (canonical formatting) for the formatting product.
func FBShapes() []Doc {
	var out []Doc
	sp := RecordSpace{DateMenu[:2], ShouldMenu[:2], RecordSummaryMenu, append(append([]GEntry{}, EntryMenu...), EntryMenuExtra[6], EntryMenuExtra[15]), EntrySummaryMenu, 2}
	// a fixed, hand-chosen set of record indices covering: no entries, summaries, multi-line entry summaries, open ranges
	pick := func(date, should, sum int, es ...[2]int) GRecord {
		r := GRecord{Date: sp.Dates[date], Should: sp.Shoulds[should].lit, ShouldMins: sp.Shoulds[should].mins, Summary: sp.Summaries[sum]}
		for _, e := range es {
			x := sp.Entries[e[0]]
			x.Summary = sp.ESummaries[e[1]]
			r.Entries = append(r.Entries, x)
		}
		return r
	}
	recs := []GRecord{
		pick(0, 0, 0),
		pick(0, 1, 1),
		pick(1, 0, 2),
		pick(0, 0, 0, [2]int{0, 0}),
		pick(0, 1, 0, [2]int{3, 1}),
		pick(1, 0, 1, [2]int{0, 2}, [2]int{8, 0}),
		pick(0, 0, 2, [2]int{5, 3}, [2]int{1, 4}),
		pick(1, 1, 0, [2]int{9, 2}),
		pick(0, 0, 1, [2]int{7, 4}, [2]int{10, 0}),
		pick(1, 0, 0, [2]int{11, 1}, [2]int{2, 3}),
		pick(0, 1, 2, [2]int{4, 5}, [2]int{0, 5}),
	}
	for i := range recs {
		out = append(out, Doc{Records: []GRecord{recs[i]}})
	}
	pairs := [][2]int{{0, 3}, {3, 0}, {1, 5}, {5, 6}, {6, 7}, {4, 4}, {7, 2}, {2, 8}, {8, 9}, {9, 1}, {5, 5}, {6, 3}, {10, 2}}
	for _, p := range pairs {
		out = append(out, Doc{Records: []GRecord{recs[p[0]], recs[p[1]]}})
	}
	out = append(out, Doc{Records: []GRecord{recs[3], recs[6], recs[7]}})
	out = append(out, Doc{Records: []GRecord{recs[5], recs[0], recs[9]}})
	return out
}

// FB is the formatting product over the shapes.
type FB struct {
	Shapes []Doc
	Full   bool // thorough: all unit pairs and all blank-run menus
}

func (f FB) bases() []int {
	// shape, unitA, unitB, eol, before, between, after, finalNL, headgap
	if f.Full {
		return []int{len(f.Shapes), 4, 4, 4, len(blankRuns), len(betweenRuns), len(afterRuns), 2, 2}
	}
	return []int{len(f.Shapes), 4, 4, 3, len(blankRuns), len(betweenRuns), 2, 2, 2}
}

func (f FB) Count() int { return Product(f.bases()...) }

func (f FB) At(i int) Doc {
	d := Radix(i, f.bases()...)
	src := f.Shapes[d[0]]
	doc := Doc{Layout: Layout{EOL: d[3], Before: blankRuns[d[4]], Between: betweenRuns[d[5]], After: afterRuns[d[6]], FinalNL: d[7] == 1}}
	for k, r := range src.Records {
		u := sm.Units[d[1]]
		if k%2 == 1 {
			u = sm.Units[d[2]]
		}
		r.Unit = u
		r.HeadGap = headGaps[d[8]]
		doc.Records = append(doc.Records, r)
	}
	return doc
}

func min(a, b int) int {
	if a < b {
		return a
	}
	return b
}
