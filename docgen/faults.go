package docgen

import (
	"strings"

	sm "klogverif/specmodel"
)

// Rule-violating (and a few rule-preserving) edits of valid documents: family FD.
// An edited document is classified by specmodel, never assumed invalid.

type LineKind int

const (
	LBlank LineKind = iota
	LHeadline
	LRecSummary
	LEntry
	LContinuation
)

// Classify labels the physical lines of a valid document.
func Classify(text string) (lines []sm.PLine, kinds []LineKind, units []string, ok bool) {
	res := sm.Parse(text)
	if res.Verdict != sm.Valid {
		return nil, nil, nil, false
	}
	lines = sm.SplitLines(text)
	kinds = make([]LineKind, len(lines))
	units = make([]string, len(lines))
	for _, r := range res.Records {
		kinds[r.Line-1] = LHeadline
		for k := range r.Summary {
			kinds[r.Line+k] = LRecSummary
		}
		for _, e := range r.Entries {
			kinds[e.Line-1] = LEntry
			units[e.Line-1] = r.Unit
			for k := 1; k < len(e.Summary); k++ {
				kinds[e.Line-1+k] = LContinuation
				units[e.Line-1+k] = r.Unit
			}
		}
	}
	return lines, kinds, units, true
}

// An Op edits line i of a document given as physical lines; it returns the replacement
// lines for line i (possibly several, possibly none) or ok=false when not applicable.
type Op struct {
	Name  string
	Kinds []LineKind
	Apply func(line string, unit string) ([]string, bool)
}

func repl(kinds []LineKind, name string, f func(line, unit string) string) Op {
	return Op{Name: name, Kinds: kinds, Apply: func(line, unit string) ([]string, bool) {
		n := f(line, unit)
		if n == line {
			return nil, false
		}
		return []string{n}, true
	}}
}

// replaceDate swaps the 10-character date at the start of a headline.
func replaceDate(newDate string) func(string, string) string {
	return func(line, _ string) string {
		if len(line) < 10 {
			return line
		}
		return newDate + line[10:]
	}
}

// replaceValue swaps the entry value (everything between the indentation and the summary).
func entryParts(line, unit string) (indent, value, rest string) {
	indent = unit
	body := line[len(unit):]
	// the value ends where the reference parser says the summary starts: re-parse the body
	res := sm.Parse("2000-01-01\n    " + body)
	if res.Verdict != sm.Valid || len(res.Records) != 1 || len(res.Records[0].Entries) != 1 {
		return indent, body, ""
	}
	sum := res.Records[0].Entries[0].Summary[0]
	if sum == "" {
		return indent, body, ""
	}
	value = strings.TrimSuffix(body, " "+sum)
	return indent, value, " " + sum
}

func replaceValue(v string) func(string, string) string {
	return func(line, unit string) string {
		ind, _, rest := entryParts(line, unit)
		return ind + v + rest
	}
}

var (
	kHead = []LineKind{LHeadline}
	kSum  = []LineKind{LRecSummary}
	kEnt  = []LineKind{LEntry}
	kCont = []LineKind{LContinuation}
	kInd  = []LineKind{LEntry, LContinuation}
	kAny  = []LineKind{LHeadline, LRecSummary, LEntry, LContinuation}
	kAll  = []LineKind{LBlank, LHeadline, LRecSummary, LEntry, LContinuation}
)

// Ops is the catalogue of edit operators. The classes follow the MUST rules C01 names.
var Ops = []Op{
	// --- dates
	repl(kHead, "date-month-13", replaceDate("2020-13-01")),
	repl(kHead, "date-feb-30", replaceDate("2020-02-30")),
	repl(kHead, "date-feb-29-common-year", replaceDate("2019-02-29")),
	repl(kHead, "date-day-00", replaceDate("2020-01-00")),
	repl(kHead, "date-short-month", replaceDate("2020-1-001")),
	repl(kHead, "date-mixed-separators-1", replaceDate("2020/01-01")),
	repl(kHead, "date-mixed-separators-2", replaceDate("2020-01/01")),
	repl(kHead, "date-dots", replaceDate("2020.01.01")),
	repl(kHead, "date-no-separators", replaceDate("20200101xx")),
	repl(kHead, "date-dmy", replaceDate("01-01-2020")),
	repl(kHead, "date-valid-other", replaceDate("2024-02-29")), // rule-preserving
	// --- headline
	repl(kHead, "headline-extra-text", func(l, _ string) string { return l + " foo" }),
	repl(kHead, "headline-extra-percent", func(l, _ string) string { return l + " 100%d %s" }),
	repl(kHead, "headline-should-without-bang", func(l, _ string) string { return l[:10] + " (8h)" }),
	repl(kHead, "headline-should-empty", func(l, _ string) string { return l[:10] + " ()" }),
	repl(kHead, "headline-should-unclosed", func(l, _ string) string { return l[:10] + " (8h!" }),
	repl(kHead, "headline-should-unclosed-non-ascii", func(l, _ string) string { return l[:10] + " (8h! für später 中" }),
	repl(kHead, "headline-non-ascii-text", func(l, _ string) string { return l[:10] + " ünï (8h!)" }),
	repl(kHead, "headline-should-garbage", func(l, _ string) string { return l[:10] + " (8x!)" }),
	repl(kHead, "headline-should-no-space", func(l, _ string) string { return l[:10] + "(8h!)" }),
	repl(kHead, "headline-should-twice", func(l, _ string) string { return l[:10] + " (8h!) (1h!)" }),
	repl(kHead, "headline-should-trailing-text", func(l, _ string) string { return l[:10] + " (8h!)x" }),
	repl(kHead, "headline-should-double-bang", func(l, _ string) string { return l[:10] + " (8h!!)" }),
	repl(kHead, "headline-should-time", func(l, _ string) string { return l[:10] + " (8:00!)" }),
	repl(kHead, "headline-should-valid", func(l, _ string) string { return l[:10] + " (7h30m!)" }), // rule-preserving
	repl(kHead, "headline-indented-space", func(l, _ string) string { return " " + l }),
	repl(kHead, "headline-indented-4", func(l, _ string) string { return "    " + l }),
	repl(kHead, "headline-indented-tab", func(l, _ string) string { return "\t" + l }),
	repl(kHead, "headline-indented-nbsp", func(l, _ string) string { return "\u00a0" + l }),
	// --- record summary
	repl(kSum, "summary-leading-space", func(l, _ string) string { return " " + l }),
	repl(kSum, "summary-leading-tab", func(l, _ string) string { return "\t" + l }),
	repl(kSum, "summary-leading-nbsp", func(l, _ string) string { return "\u00a0" + l }),
	repl(kSum, "summary-leading-ideographic-space", func(l, _ string) string { return "\u3000" + l }),
	repl(kSum, "summary-leading-en-quad", func(l, _ string) string { return "\u2000" + l }),
	repl(kSum, "summary-leading-zwsp", func(l, _ string) string { return "\u200b" + l }), // U+200B is Cf, not Zs: rule-preserving
	repl(kSum, "summary-5-spaces", func(l, _ string) string { return "     " + l }),
	// white space that is NOT a blank character of the specification (not Zs, not tab): rule-preserving
	repl(kSum, "summary-leading-formfeed", func(l, _ string) string { return "\f" + l }),
	repl(kSum, "summary-leading-vtab", func(l, _ string) string { return "\v" + l }),
	repl(kSum, "summary-leading-nel", func(l, _ string) string { return "\u0085" + l }),
	repl(kSum, "summary-leading-line-separator", func(l, _ string) string { return "\u2028" + l }),
	repl(kSum, "summary-leading-paragraph-separator", func(l, _ string) string { return "\u2029" + l }),
	// --- indentation of entries / continuation lines
	repl(kInd, "indent-1-space", func(l, u string) string { return " " + l[len(u):] }),
	repl(kInd, "indent-5-spaces", func(l, u string) string { return "     " + l[len(u):] }),
	repl(kInd, "indent-extra-space", func(l, u string) string { return u + " " + l[len(u):] }),
	repl(kInd, "indent-extra-tab", func(l, u string) string { return u + "\t" + l[len(u):] }),
	repl(kInd, "indent-space-tab", func(l, u string) string { return " \t" + l[len(u):] }),
	repl(kInd, "indent-other-unit-tab", func(l, u string) string { return "\t" + l[len(u):] }),
	repl(kInd, "indent-other-unit-4", func(l, u string) string { return "    " + l[len(u):] }),
	repl(kInd, "indent-other-unit-3", func(l, u string) string { return "   " + l[len(u):] }),
	repl(kInd, "indent-other-unit-2", func(l, u string) string { return "  " + l[len(u):] }),
	repl(kInd, "indent-nbsp", func(l, u string) string { return "\u00a0\u00a0\u00a0\u00a0" + l[len(u):] }),
	repl(kInd, "indent-none", func(l, u string) string { return strings.TrimLeft(l, " \t") }),
	repl(kEnt, "indent-doubled", func(l, u string) string { return u + l }),
	repl(kCont, "continuation-deindent", func(l, u string) string { return l[len(u):] }),
	repl(kCont, "continuation-triple", func(l, u string) string { return u + l }), // rule-preserving (text may start with blanks)
	repl(kCont, "continuation-nbsp-only", func(l, u string) string { return u + u + "\u00a0" }),
	repl(kCont, "continuation-ideographic-only", func(l, u string) string { return u + u + "\u3000\t" }),
	repl(kCont, "continuation-formfeed-only", func(l, u string) string { return u + u + "\f" }),
	repl(kCont, "continuation-line-separator-only", func(l, u string) string { return u + u + "\u2028\u0085" }),
	// --- entry values
	repl(kEnt, "value-hour-25", replaceValue("25:00 - 26:00")),
	repl(kEnt, "value-minute-60", replaceValue("8:60 - 9:00")),
	repl(kEnt, "value-minute-1-digit", replaceValue("8:0 - 9:00")),
	repl(kEnt, "value-24-30", replaceValue("23:00 - 24:30")),
	repl(kEnt, "value-24-00-shifted", replaceValue("23:00 - 24:00>")),
	repl(kEnt, "value-13pm", replaceValue("13:00pm - 14:00")),
	repl(kEnt, "value-0am", replaceValue("0:30am - 1:00am")),
	repl(kEnt, "value-both-shifts", replaceValue("<8:00> - 9:00")),
	repl(kEnt, "value-reversed", replaceValue("9:00 - 8:59")),
	repl(kEnt, "value-reversed-shift", replaceValue("0:00> - 23:59")),
	repl(kEnt, "value-reversed-12h", replaceValue("12:00pm - 12:00am")),
	repl(kEnt, "value-reversed-both-yesterday", replaceValue("<23:00 - <22:00")),
	repl(kEnt, "value-reversed-both-tomorrow", replaceValue("2:00> - 1:00>")),
	repl(kEnt, "value-reversed-24-00", replaceValue("0:30> - 24:00")),
	repl(kEnt, "value-reversed-12h-shifted", replaceValue("1:00pm> - 12:59pm>")),
	repl(kEnt, "value-equal-times", replaceValue("9:00 - 9:00")), // rule-preserving
	repl(kEnt, "value-placeholder-shifted-gt", replaceValue("8:00 - ?>")),
	repl(kEnt, "value-placeholder-shifted-lt", replaceValue("8:00 - <?")),
	repl(kEnt, "value-placeholder-mixed", replaceValue("8:00 - ??x")),
	repl(kEnt, "value-placeholder-start", replaceValue("? - 9:00")),
	repl(kEnt, "value-open-range", replaceValue("7:00 - ?")), // second open range when the record has one
	repl(kEnt, "value-open-range-nospace", replaceValue("7:00-??")),
	repl(kEnt, "value-no-dash", replaceValue("8:00 9:00")),
	repl(kEnt, "value-dash-only-start", replaceValue("8:00 -")),
	repl(kEnt, "value-dash-only-end", replaceValue("- 9:00")),
	repl(kEnt, "value-tab-before-dash", replaceValue("8:00\t- 9:00")),
	repl(kEnt, "value-tab-after-dash", replaceValue("8:00 -\t9:00")),
	repl(kEnt, "value-tab-after-dense-dash", replaceValue("8:00-\t9:00")),
	repl(kEnt, "value-space-tab-before-dash", replaceValue("8:00 \t- 9:00")),
	repl(kEnt, "value-tab-before-placeholder", replaceValue("8:00 -\t?")),
	repl(kEnt, "value-en-dash", replaceValue("8:00 – 9:00")),
	repl(kEnt, "value-duration-60m-with-hours", replaceValue("1h60m")),
	repl(kEnt, "value-duration-m-before-h", replaceValue("30m1h")),
	repl(kEnt, "value-duration-no-unit", replaceValue("90")),
	repl(kEnt, "value-duration-space", replaceValue("1h 30m")), // rule-preserving: "1h" with summary "30m"
	repl(kEnt, "value-duration-decimal", replaceValue("1.5h")),
	repl(kEnt, "value-duration-double-sign", replaceValue("--1h")),
	repl(kEnt, "value-duration-upper", replaceValue("1H")),
	repl(kEnt, "value-garbage", replaceValue("foo")),
	repl(kEnt, "value-garbage-non-ascii", replaceValue("Frühstück")),
	repl(kEnt, "value-garbage-cjk", replaceValue("昼ご飯")),
	repl(kEnt, "value-garbage-after-long-text", func(l, u string) string {
		i, _, r := entryParts(l, u)
		return i + "8:00 - 9:00x" + r + " " + strings.Repeat("a very long summary text ", 6)
	}),
	repl(kSum, "summary-very-long-then-entry-fault", func(l, _ string) string { return l + " " + strings.Repeat("wörter und mehr wörter ", 8) }),
	repl(kEnt, "value-percent", replaceValue("50%")),
	repl(kEnt, "value-empty-hash", replaceValue("#tag")),
	repl(kEnt, "value-valid-duration", replaceValue("-2h5m")), // rule-preserving
	// --- structure
	{Name: "blank-line-before", Kinds: kAny, Apply: func(l, _ string) ([]string, bool) { return []string{"", l}, true }},
	{Name: "spaces-line-before", Kinds: kAny, Apply: func(l, _ string) ([]string, bool) { return []string{"  ", l}, true }},
	{Name: "nbsp-line-before", Kinds: kAny, Apply: func(l, _ string) ([]string, bool) { return []string{"\u00a0", l}, true }},
	{Name: "stray-text-before", Kinds: kHead, Apply: func(l, _ string) ([]string, bool) { return []string{"stray text", "", l}, true }},
	{Name: "stray-text-after-blank", Kinds: kAll, Apply: func(l, _ string) ([]string, bool) { return []string{l, "", "not a record"}, true }},
	{Name: "stray-formfeed-after-blank", Kinds: kAll, Apply: func(l, _ string) ([]string, bool) { return []string{l, "", "\f"}, true }},
	{Name: "stray-nel-vtab-after-blank", Kinds: kAll, Apply: func(l, _ string) ([]string, bool) { return []string{l, "", "\u0085\v"}, true }},
	// a carriage return that is not part of a CR LF newline is an ordinary non-blank character
	repl(kAny, "cr-at-line-end", func(l, _ string) string { return l + "\r" }),
	repl(kAny, "cr-at-line-start", func(l, _ string) string { return "\r" + l }),
	repl(kEnt, "cr-after-value", func(l, u string) string { i, v, r := entryParts(l, u); return i + v + "\r" + r }),
	{Name: "cr-line-before", Kinds: kAny, Apply: func(l, _ string) ([]string, bool) { return []string{"\r", l}, true }},
	{Name: "delete-line", Kinds: kAny, Apply: func(l, _ string) ([]string, bool) { return []string{}, true }},
	{Name: "duplicate-line", Kinds: kAny, Apply: func(l, _ string) ([]string, bool) { return []string{l, l}, true }},
	{Name: "unindented-after", Kinds: kInd, Apply: func(l, _ string) ([]string, bool) { return []string{l, "late summary"}, true }},
	{Name: "entry-after", Kinds: kAny, Apply: func(l, u string) ([]string, bool) {
		if u == "" {
			u = "    "
		}
		return []string{l, u + "45m added"}, true
	}},
}

func kindIn(k LineKind, ks []LineKind) bool {
	for _, x := range ks {
		if x == k {
			return true
		}
	}
	return false
}

// Edit identifies one applicable (line, operator) pair of a base document.
type Edit struct {
	Line int // 0-based physical line
	Op   int
}

// Base is a valid document prepared for editing.
type Base struct {
	Text  string
	Lines []sm.PLine
	Kinds []LineKind
	Units []string
	Edits []Edit
}

func NewBase(text string) (*Base, bool) {
	lines, kinds, units, ok := Classify(text)
	if !ok {
		return nil, false
	}
	b := &Base{Text: text, Lines: lines, Kinds: kinds, Units: units}
	for i := range lines {
		for o, op := range Ops {
			if !kindIn(kinds[i], op.Kinds) {
				continue
			}
			if _, ok := op.Apply(lines[i].Text, units[i]); ok {
				b.Edits = append(b.Edits, Edit{i, o})
			}
		}
	}
	return b, true
}

// Apply renders the document with the given edits (distinct lines) applied.
func (b *Base) Apply(edits ...Edit) string {
	byLine := map[int]Edit{}
	for _, e := range edits {
		byLine[e.Line] = e
	}
	var sb strings.Builder
	for i, l := range b.Lines {
		e, has := byLine[i]
		if !has {
			sb.WriteString(l.Text)
			sb.WriteString(l.EOL)
			continue
		}
		repl, _ := Ops[e.Op].Apply(l.Text, b.Units[i])
		eol := l.EOL
		for k, r := range repl {
			sb.WriteString(r)
			if k < len(repl)-1 {
				// inner line endings: reuse the document's style (the edited line's own, or LF for the last line)
				if eol == "" {
					sb.WriteString("\n")
				} else {
					sb.WriteString(eol)
				}
			} else {
				sb.WriteString(eol)
			}
		}
	}
	return sb.String()
}

// FaultBases: the valid documents that get edited.
func FaultBases(full bool) []string {
	var out []string
	shapes := FBShapes()
	layouts := []Layout{
		DefaultLayout,
		{EOL: 1, Between: []string{"", ""}, After: []string{""}, FinalNL: true},
		{EOL: 0, Before: []string{""}, Between: []string{" "}, FinalNL: false},
		{EOL: 2, Between: []string{""}, After: []string{"  "}, FinalNL: false},
	}
	units := [][2]string{{"    ", "    "}, {"\t", "  "}, {"   ", "\t"}, {"  ", "    "}}
	for si, s := range shapes {
		for li, lay := range layouts {
			if !full && (si+li)%2 == 1 {
				continue
			}
			d := Doc{Layout: lay}
			for k, r := range s.Records {
				r.Unit = units[(si+li)%len(units)][k%2]
				d.Records = append(d.Records, r)
			}
			out = append(out, d.Text())
		}
	}
	return out
}
