package docgen

import "strings"

// TokenSpace is the set of all sequences of at most MaxLen tokens over Alphabet,
// enumerated shortest first (so the first counter-example is a shortest one).
type TokenSpace struct {
	Alphabet []string
	MaxLen   int
	MinLen   int
}

func (t TokenSpace) Count() int {
	n, p := 0, 1
	for l := 0; l <= t.MaxLen; l++ {
		if l >= t.MinLen {
			n += p
		}
		p *= len(t.Alphabet)
	}
	return n
}

// Digits decodes index i into token indices.
func (t TokenSpace) Digits(i int) []int {
	p := 1
	for l := 0; l <= t.MaxLen; l++ {
		if l >= t.MinLen {
			if i < p {
				out := make([]int, l)
				for k := l - 1; k >= 0; k-- {
					out[k] = i % len(t.Alphabet)
					i /= len(t.Alphabet)
				}
				return out
			}
			i -= p
		}
		p *= len(t.Alphabet)
	}
	return nil
}

func (t TokenSpace) At(i int) string {
	var b strings.Builder
	for _, d := range t.Digits(i) {
		b.WriteString(t.Alphabet[d])
	}
	return b.String()
}
