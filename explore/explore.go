//go:build verif

// Package explore is the stateless, deviation-bounded depth-first explorer over the choice
// points owned by vrt (thread scheduling, map iteration order).
package explore

import (
	"fmt"

	"github.com/jotaen/klog/klog/verifrt/vrt"
)

// PointRec is one choice point of one execution.
type PointRec struct {
	Kind           string
	N              int
	RunningEnabled bool
	Chosen         int
}

// Recorder replays a prefix of choices and answers 0 afterwards, recording every point.
type Recorder struct {
	Prefix []int
	Points []PointRec
	Err    error
}

func (r *Recorder) Choose(kind string, n int, runningEnabled bool) int {
	i := len(r.Points)
	c := 0
	if i < len(r.Prefix) {
		c = r.Prefix[i]
		if c >= n {
			// replaying a prefix must meet the same choice points: a divergence is a hard error
			r.Err = fmt.Errorf("replay divergence at point %d: choice %d but only %d alternatives (%s)", i, c, n, kind)
			c = 0
		}
	}
	r.Points = append(r.Points, PointRec{kind, n, runningEnabled, c})
	return c
}

// Deviations is the number of deviations (preemptions, non-canonical map orders) so far.
func (r *Recorder) Deviations() int {
	d := 0
	for _, p := range r.Points {
		d += p.cost()
	}
	return d
}

func (r *Recorder) Choices() []int {
	out := make([]int, len(r.Points))
	for i, p := range r.Points {
		out[i] = p.Chosen
	}
	return out
}

// cost of a decision: a preemption (switching away from a thread that could continue), or a
// non-canonical map order.
func (p PointRec) cost() int {
	if p.Chosen == 0 {
		return 0
	}
	if p.Kind == "sched" && !p.RunningEnabled {
		return 0
	}
	return 1
}

type Stats struct {
	Executions int
	Pruned     int
	MaxPoints  int
	MaxDev     int
	Capped     bool
}

// DFS explores all executions with at most `bound` deviations (bound < 0: unbounded).
// run performs one execution under the recorder's choices; it returns false to stop the search
// (e.g. after a violation). maxExec caps the number of executions (0 = no cap).
func DFS(bound int, maxExec int, run func(rec *Recorder) bool) (Stats, error) {
	var st Stats
	type frame struct{ prefix []int }
	stack := []frame{{nil}}
	for len(stack) > 0 {
		f := stack[len(stack)-1]
		stack = stack[:len(stack)-1]
		if maxExec > 0 && st.Executions >= maxExec {
			st.Capped = true
			return st, nil
		}
		rec := &Recorder{Prefix: f.prefix}
		cont := run(rec)
		st.Executions++
		if rec.Err != nil {
			return st, rec.Err
		}
		if len(rec.Points) < len(f.prefix) {
			return st, fmt.Errorf("replay divergence: prefix of %d choices but the execution had only %d points", len(f.prefix), len(rec.Points))
		}
		if len(rec.Points) > st.MaxPoints {
			st.MaxPoints = len(rec.Points)
		}
		if !cont {
			return st, nil
		}
		// deviations used so far along this execution
		dev := 0
		devAt := make([]int, len(rec.Points)+1)
		for i, p := range rec.Points {
			devAt[i] = dev
			dev += p.cost()
		}
		if dev > st.MaxDev {
			st.MaxDev = dev
		}
		choices := rec.Choices()
		// children: every alternative at every point beyond the prefix (pushed in reverse so that
		// the search proceeds depth-first, simplest first)
		for i := len(rec.Points) - 1; i >= len(f.prefix); i-- {
			p := rec.Points[i]
			for alt := p.N - 1; alt >= 1; alt-- {
				c := PointRec{p.Kind, p.N, p.RunningEnabled, alt}.cost()
				if bound >= 0 && devAt[i]+c > bound {
					continue
				}
				child := append(append([]int{}, choices[:i]...), alt)
				stack = append(stack, frame{child})
			}
		}
	}
	return st, nil
}

// RunSched performs one controlled execution of body under the recorder.
func RunSched(rec *Recorder, hook func(key string, point int) bool, body func()) (*vrt.Sched, any) {
	var s *vrt.Sched
	chooser := vrt.Chooser(rec.Choose)
	s, pv := vrt.ExecuteWithHook(chooser, func(key string) bool {
		if hook == nil {
			return false
		}
		return hook(key, len(rec.Points))
	}, body)
	return s, pv
}
