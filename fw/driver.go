package fw

import (
	"bufio"
	"bytes"
	"encoding/binary"
	"encoding/json"
	"fmt"
	"os"
	"os/exec"
	"path/filepath"
	"regexp"
	"sort"
	"strconv"
	"strings"
	"sync"
	"time"
)

// verifDir is where evidence, replays and known_findings.json live (the directory of ./check).
var verifDir = func() string {
	if d := os.Getenv("KV_VERIF_DIR"); d != "" {
		return d
	}
	return "/verif"
}()

func envInt(name string, def int) int {
	if v := os.Getenv(name); v != "" {
		if n, err := strconv.Atoi(v); err == nil {
			return n
		}
	}
	return def
}

// Main is the entry point of the kv binary.
func Main() {
	if len(os.Args) < 2 {
		fmt.Fprintln(os.Stderr, "usage: kv run <id> <quick|thorough> | replay <file> | list")
		os.Exit(2)
	}
	switch os.Args[1] {
	case "list":
		for _, id := range AllIDs() {
			fmt.Println(id, registry[id].Title)
		}
	case "run":
		if len(os.Args) < 4 {
			fmt.Fprintln(os.Stderr, "usage: kv run <id> <tier>")
			os.Exit(2)
		}
		os.Exit(runParent(os.Args[2], Tier(os.Args[3])))
	case "worker":
		runWorker(os.Args[2:])
	case "replay":
		os.Exit(runReplay(os.Args[2], true))
	case "replay-quiet":
		os.Exit(runReplay(os.Args[2], false))
	default:
		fmt.Fprintln(os.Stderr, "unknown subcommand", os.Args[1])
		os.Exit(2)
	}
}

// ---------------------------------------------------------------- worker

func runWorker(args []string) {
	// args: id tier w nw startUnit outdir deadlineUnix
	id, tier := args[0], Tier(args[1])
	w, _ := strconv.Atoi(args[2])
	nw, _ := strconv.Atoi(args[3])
	start, _ := strconv.Atoi(args[4])
	outdir := args[5]
	dl, _ := strconv.ParseInt(args[6], 10, 64)
	ch := Lookup(id)
	if ch == nil {
		fmt.Fprintln(os.Stderr, "no such check", id)
		os.Exit(2)
	}
	var deadline time.Time
	if dl > 0 {
		deadline = time.Unix(dl, 0)
	}
	c := newCtx(ch, tier, deadline)
	c.Seed = int64(envInt("VERIF_SEED", 0))
	mf, _ := os.OpenFile(filepath.Join(outdir, fmt.Sprintf("marker.%d", w)), os.O_CREATE|os.O_RDWR|os.O_TRUNC, 0644)
	c.marker = mf
	c.violLog, _ = os.OpenFile(filepath.Join(outdir, fmt.Sprintf("violations.%d.%d.jsonl", w, start)), os.O_CREATE|os.O_WRONLY|os.O_APPEND, 0644)
	unitFile, _ := os.OpenFile(filepath.Join(outdir, fmt.Sprintf("unit.%d", w)), os.O_CREATE|os.O_RDWR|os.O_TRUNC, 0644)
	units := ch.Units(tier)
	for u := start; u < units; u += nw {
		if c.Expired() {
			break
		}
		var b [8]byte
		binary.LittleEndian.PutUint64(b[:], uint64(u))
		unitFile.WriteAt(b[:], 0)
		c.Mark(nil)
		ch.RunUnit(c, u)
		c.res.UnitsDone++
	}
	writeWorkerResult(c, outdir, w, start)
}

func writeWorkerResult(c *Ctx, outdir string, w, start int) {
	// distinct hashes, sorted
	hs := make([]uint64, 0, len(c.distinct))
	for h := range c.distinct {
		hs = append(hs, h)
	}
	sort.Slice(hs, func(i, j int) bool { return hs[i] < hs[j] })
	df := filepath.Join(outdir, fmt.Sprintf("distinct.%d.%d", w, start))
	f, _ := os.Create(df)
	bw := bufio.NewWriterSize(f, 1<<20)
	var b [8]byte
	for _, h := range hs {
		binary.LittleEndian.PutUint64(b[:], h)
		bw.Write(b[:])
	}
	bw.Flush()
	f.Close()
	c.res.DistinctFile = df
	c.res.DistinctN = int64(len(hs))
	c.res.SetOf = map[string][]string{}
	for k, m := range c.sets {
		for s := range m {
			c.res.SetOf[k] = append(c.res.SetOf[k], s)
		}
	}
	out, _ := json.Marshal(c.res)
	tmp := filepath.Join(outdir, fmt.Sprintf("result.%d.%d.tmp", w, start))
	os.WriteFile(tmp, out, 0644)
	os.Rename(tmp, filepath.Join(outdir, fmt.Sprintf("result.%d.%d.json", w, start)))
}

// ---------------------------------------------------------------- parent

type knownFinding struct {
	ID        string `json:"id"`
	Property  string `json:"property"`
	Sig       string `json:"sig"`        // exact violation signature
	CaseRegex string `json:"case_regex"` // regexp over the case JSON (and detail)
	What      string `json:"what"`
}

type knownFile struct {
	Findings []knownFinding `json:"findings"`
	Fixed    []string       `json:"fixed"`
}

func loadKnown() knownFile {
	var kf knownFile
	b, err := os.ReadFile(filepath.Join(verifDir, "known_findings.json"))
	if err == nil {
		json.Unmarshal(b, &kf)
	}
	return kf
}

func (k knownFinding) matches(v Violation) bool {
	if k.Property != v.Property || k.Sig != v.Sig {
		return false
	}
	if k.CaseRegex == "" {
		return true
	}
	re, err := regexp.Compile(k.CaseRegex)
	if err != nil {
		return false
	}
	return re.Match(v.Case)
}

func runParent(id string, tier Tier) int {
	ch := Lookup(id)
	if ch == nil {
		fmt.Fprintln(os.Stderr, "no such check:", id)
		return 2
	}
	if tier != Quick && tier != Thorough {
		fmt.Fprintln(os.Stderr, "tier must be quick or thorough")
		return 2
	}
	t0 := time.Now()
	scratch := fmt.Sprintf("/dev/shm/klogverif.%d", os.Getpid())
	os.MkdirAll(scratch, 0755)
	defer os.RemoveAll(scratch)

	budget := 240
	if tier == Thorough {
		budget = 1800
	}
	budget = envInt("KV_BUDGET_S", budget)
	deadline := t0.Add(time.Duration(budget) * time.Second)
	hard := time.Duration(budget)*3*time.Second + 120*time.Second

	units := ch.Units(tier)
	nw := envInt("KV_WORKERS", 16)
	if nw > units {
		nw = units
	}
	if nw < 1 {
		nw = 1
	}
	self, _ := os.Executable()

	type crash struct {
		w, unit int
		marker  []byte
		stderr  string
		killed  bool
	}
	var mu sync.Mutex
	var crashes []crash
	var harnessErrors []string
	var wg sync.WaitGroup
	for w := 0; w < nw; w++ {
		wg.Add(1)
		go func(w int) {
			defer wg.Done()
			start := w
			for attempt := 0; attempt < 8 && start < units; attempt++ {
				cmd := exec.Command(self, "worker", id, string(tier), strconv.Itoa(w), strconv.Itoa(nw), strconv.Itoa(start), scratch, strconv.FormatInt(deadline.Unix(), 10))
				cmd.Env = append(os.Environ(), "KV_SCRATCH="+filepath.Join(scratch, fmt.Sprintf("w%d", w)))
				if os.Getenv("GOMAXPROCS") == "" {
					cmd.Env = append(cmd.Env, "GOMAXPROCS=2")
				}
				os.MkdirAll(filepath.Join(scratch, fmt.Sprintf("w%d", w)), 0755)
				var stderr bytes.Buffer
				cmd.Stderr = &stderr
				cmd.Stdout = &stderr
				done := make(chan error, 1)
				if err := cmd.Start(); err != nil {
					fmt.Fprintln(os.Stderr, "cannot start worker:", err)
					return
				}
				go func() { done <- cmd.Wait() }()
				var err error
				killed := false
				select {
				case err = <-done:
				case <-time.After(hard):
					cmd.Process.Kill()
					err = <-done
					killed = true
				}
				if err == nil {
					return
				}
				if cmd.ProcessState != nil && cmd.ProcessState.ExitCode() == 3 {
					mu.Lock()
					harnessErrors = append(harnessErrors, stderr.String())
					mu.Unlock()
					return
				}
				// crashed (or killed): attribute, then continue after the crashed unit
				ub, _ := os.ReadFile(filepath.Join(scratch, fmt.Sprintf("unit.%d", w)))
				unit := start
				if len(ub) >= 8 {
					unit = int(binary.LittleEndian.Uint64(ub))
				}
				mb, _ := os.ReadFile(filepath.Join(scratch, fmt.Sprintf("marker.%d", w)))
				var cas []byte
				if len(mb) >= 4 {
					n := int(binary.LittleEndian.Uint32(mb))
					if 4+n <= len(mb) {
						cas = mb[4 : 4+n]
					}
				}
				se := stderr.String()
				if len(se) > 6000 {
					se = se[:6000]
				}
				mu.Lock()
				crashes = append(crashes, crash{w, unit, cas, se, killed})
				mu.Unlock()
				start = unit + nw
			}
		}(w)
	}
	wg.Wait()

	if len(harnessErrors) > 0 {
		fmt.Printf("HARNESS-ERROR (no verdict): %s\n", truncate(harnessErrors[0], 3000))
		return 2
	}

	// merge
	merged := &Result{Outcomes: map[string]int64{}, Counters: map[string]int64{}, MaxOf: map[string]int64{}, SetOf: map[string][]string{}}
	files, _ := filepath.Glob(filepath.Join(scratch, "result.*.json"))
	sort.Strings(files)
	var distinctFiles []string
	sets := map[string]map[string]struct{}{}
	for _, f := range files {
		var r Result
		b, _ := os.ReadFile(f)
		if json.Unmarshal(b, &r) != nil {
			continue
		}
		merged.Evaluations += r.Evaluations
		for k, v := range r.Outcomes {
			merged.Outcomes[k] += v
		}
		for k, v := range r.Counters {
			merged.Counters[k] += v
		}
		for k, v := range r.MaxOf {
			if old, ok := merged.MaxOf[k]; !ok || v > old {
				merged.MaxOf[k] = v
			}
		}
		for k, vs := range r.SetOf {
			if sets[k] == nil {
				sets[k] = map[string]struct{}{}
			}
			for _, s := range vs {
				sets[k][s] = struct{}{}
			}
		}
		if len(merged.Samples) < 24 {
			merged.Samples = append(merged.Samples, r.Samples...)
		}
		merged.ViolationsN += r.ViolationsN
		for _, cp := range r.Caps {
			merged.Caps = appendUniq(merged.Caps, cp)
		}
		merged.Notes = append(merged.Notes, r.Notes...)
		merged.UnitsDone += r.UnitsDone
		merged.DistinctCap = merged.DistinctCap || r.DistinctCap
		if r.DistinctFile != "" {
			distinctFiles = append(distinctFiles, r.DistinctFile)
		}
	}
	// violations are read from the write-through logs (they survive a crashed worker)
	vfiles, _ := filepath.Glob(filepath.Join(scratch, "violations.*.jsonl"))
	sort.Strings(vfiles)
	for _, vf := range vfiles {
		b, _ := os.ReadFile(vf)
		for _, line := range bytes.Split(b, []byte("\n")) {
			var v Violation
			if len(line) > 0 && json.Unmarshal(line, &v) == nil {
				merged.Violations = append(merged.Violations, v)
			}
		}
	}
	for k, m := range sets {
		for s := range m {
			merged.SetOf[k] = append(merged.SetOf[k], s)
		}
		sort.Strings(merged.SetOf[k])
	}
	if len(merged.Samples) > 24 {
		merged.Samples = merged.Samples[:24]
	}
	merged.DistinctN = countDistinct(distinctFiles)
	if merged.UnitsDone < units {
		merged.Caps = appendUniq(merged.Caps, fmt.Sprintf("only %d of %d work units completed", merged.UnitsDone, units))
	}
	for _, cr := range crashes {
		if cr.killed {
			// No wall-clock oracle: a worker that exceeded the hard deadline is reported as a cap,
			// unless the marked case hangs again in two fresh replays (see confirmHang).
			merged.Caps = appendUniq(merged.Caps, fmt.Sprintf("worker %d killed at hard deadline in unit %d", cr.w, cr.unit))
			if cr.marker != nil && ch.Replay != nil && confirmHang(self, scratch, id, cr.marker) {
				merged.Violations = append(merged.Violations, Violation{Property: id, Sig: "hang", Case: jsonOrString(cr.marker), Detail: "case did not terminate within 60 s in two fresh processes"})
				merged.ViolationsN++
			}
			continue
		}
		site := crashSite(cr.stderr)
		merged.Caps = appendUniq(merged.Caps, "a worker process crashed; its partial counts are lost")
		if cr.marker == nil {
			// The check had not marked a case (it did not expect this call to be able to crash the process): the
			// crash is attributed to the work unit and confirmed by running that unit alone, twice, in fresh processes.
			again := 0
			for i := 0; i < 2; i++ {
				dir := filepath.Join(scratch, fmt.Sprintf("unitcrash.%d.%d", cr.unit, i))
				os.MkdirAll(dir, 0755)
				cmd := exec.Command(self, "worker", id, string(tier), "0", strconv.Itoa(units+1), strconv.Itoa(cr.unit), dir, strconv.FormatInt(time.Now().Add(10*time.Minute).Unix(), 10))
				cmd.Env = append(os.Environ(), "KV_SCRATCH="+dir)
				if out, _ := runWithTimeout(cmd, 11*time.Minute); strings.Contains(out, "CRASHED") {
					again++
				}
			}
			if again == 2 {
				v := Violation{Property: id, Sig: "unit-crash:" + site, Case: json.RawMessage(fmt.Sprintf(`{"work_unit":%d,"tier":%q}`, cr.unit, tier)),
					Detail: fmt.Sprintf("the worker process crashed in work unit %d (and again, twice, when that unit was run alone in a fresh process: `kv worker %s %s 0 %d %d <dir> 0`):\n%s", cr.unit, id, tier, units+1, cr.unit, cr.stderr)}
				merged.Violations = append(merged.Violations, v)
				merged.ViolationsN++
			} else {
				merged.Caps = appendUniq(merged.Caps, fmt.Sprintf("a worker crash in unit %d did not recur when the unit was run alone (%d/2) and is not reported", cr.unit, again))
			}
			continue
		}
		v := Violation{Property: id, Sig: "process-crash:" + site, Case: jsonOrString(cr.marker), Detail: cr.stderr}
		merged.Violations = append(merged.Violations, v)
		merged.ViolationsN++
	}
	if ch.Finalize != nil {
		ch.Finalize(merged)
	}

	// classify violations
	kf := loadKnown()
	knownHit := map[string]int{}
	var fresh []Violation
	for _, v := range merged.Violations {
		matched := false
		for _, k := range kf.Findings {
			if k.matches(v) {
				knownHit[k.ID]++
				matched = true
				break
			}
		}
		if !matched {
			fresh = append(fresh, v)
		}
	}
	// one representative per signature, confirmed by replay in fresh processes
	os.MkdirAll(filepath.Join(verifDir, "replays"), 0755)
	seenSig := map[string]bool{}
	var confirmed []string
	unreproducible := 0
	for _, v := range fresh {
		if seenSig[v.Sig] || len(confirmed) >= 10 {
			continue
		}
		seenSig[v.Sig] = true
		path := filepath.Join(verifDir, "replays", fmt.Sprintf("%s-%s-%d.json", id, sanitize(v.Sig), len(confirmed)+unreproducible))
		b, _ := json.MarshalIndent(v, "", " ")
		os.WriteFile(path, b, 0644)
		ok := 0
		const tries = 5
		if ch.Replay == nil || strings.HasPrefix(v.Sig, "finalize:") || strings.HasPrefix(v.Sig, "unit-crash:") {
			ok = tries
		} else {
			for i := 0; i < tries; i++ {
				cmd := exec.Command(self, "replay-quiet", path)
				cmd.Env = append(os.Environ(), "KV_SCRATCH="+filepath.Join(scratch, "replay"))
				os.MkdirAll(filepath.Join(scratch, "replay"), 0755)
				out, _ := runWithTimeout(cmd, 120*time.Second)
				if strings.Contains(out, "REPRODUCED sig="+v.Sig+"\n") || (strings.HasPrefix(v.Sig, "process-crash:") && strings.Contains(out, "CRASHED")) {
					ok++
				}
			}
		}
		if ok == tries {
			confirmed = append(confirmed, path)
			fmt.Printf("VIOLATION property=%s replay=%s\n", id, path)
			fmt.Printf("  sig=%s\n  case=%s\n  %s\n", v.Sig, truncate(string(v.Case), 600), truncate(strings.ReplaceAll(v.Detail, "\n", "\n  "), 1500))
		} else {
			unreproducible++
			merged.Caps = appendUniq(merged.Caps, fmt.Sprintf("a failure (sig=%s) reproduced only %d/%d times in fresh processes and is not reported", v.Sig, ok, tries))
			os.Rename(path, path+".unreproducible")
		}
	}
	if len(fresh) > 0 && os.Getenv("KV_LIST") != "" {
		for i, v := range fresh {
			if i >= 200 {
				break
			}
			fmt.Printf("  all[%d] sig=%s case=%s :: %s\n", i, v.Sig, truncate(string(v.Case), 300), truncate(strings.SplitN(v.Detail, "\n", 2)[0], 300))
		}
	}
	var knownIDs []string
	for _, k := range kf.Findings {
		if knownHit[k.ID] > 0 {
			fmt.Printf("KNOWN-FINDING: property=%s %s [%s, %d occurrences]\n", id, k.What, k.ID, knownHit[k.ID])
			knownIDs = append(knownIDs, k.ID)
		}
	}

	exhaustive := len(merged.Caps) == 0
	cov := map[string]any{
		"evaluations":         merged.Evaluations,
		"distinct_nontrivial": merged.DistinctN,
		"rule":                ch.Rule,
		"samples":             merged.Samples,
		"exhaustive":          exhaustive,
		"outcomes":            merged.Outcomes,
		"work_units":          units,
		"work_units_done":     merged.UnitsDone,
		"workers":             nw,
	}
	if merged.DistinctCap {
		cov["distinct_nontrivial_note"] = "per-worker hash set reached its cap; the count is a lower bound"
	}
	if len(merged.Caps) > 0 {
		cov["caps"] = merged.Caps
	}
	for k, v := range merged.Counters {
		cov[k] = v
	}
	for k, v := range merged.MaxOf {
		cov["max_"+k] = v
	}
	for k, v := range merged.SetOf {
		cov["n_"+k] = len(v)
		if len(v) <= 64 {
			cov[k] = v
		}
	}
	for k, v := range merged.Extra {
		cov[k] = v
	}
	if len(merged.Notes) > 0 {
		if len(merged.Notes) > 30 {
			merged.Notes = merged.Notes[:30]
		}
		cov["notes"] = merged.Notes
	}
	if len(knownIDs) > 0 {
		cov["known_findings_matched"] = knownIDs
	}
	if len(cov["samples"].([]any)) == 0 {
		cov["samples"] = []any{"(no sample recorded)"}
	}
	ev := map[string]any{
		"property_id": id,
		"tier":        string(tier),
		"seed":        envInt("VERIF_SEED", 0),
		"level":       "model_checking",
		"coverage":    cov,
		"assumptions": ch.Assumptions,
		"wall_s":      time.Since(t0).Seconds(),
		"violations":  len(confirmed),
	}
	os.MkdirAll(filepath.Join(verifDir, "evidence"), 0755)
	b, _ := json.MarshalIndent(ev, "", " ")
	os.WriteFile(filepath.Join(verifDir, "evidence", id+".json"), append(b, '\n'), 0644)

	fmt.Printf("%s %s: evaluations=%d distinct_nontrivial=%d exhaustive=%v violations=%d known=%d wall=%.1fs\n",
		id, tier, merged.Evaluations, merged.DistinctN, exhaustive, len(confirmed), len(knownIDs), time.Since(t0).Seconds())
	if len(merged.Caps) > 0 {
		fmt.Printf("  caps: %s\n", strings.Join(merged.Caps, "; "))
	}
	printHistogram(merged)
	if len(confirmed) > 0 {
		return 1
	}
	return 0
}

func printHistogram(r *Result) {
	var ks []string
	for k := range r.Outcomes {
		ks = append(ks, k)
	}
	sort.Strings(ks)
	var parts []string
	for _, k := range ks {
		parts = append(parts, fmt.Sprintf("%s=%d", k, r.Outcomes[k]))
	}
	if len(parts) > 0 {
		fmt.Printf("  outcomes: %s\n", strings.Join(parts, " "))
	}
	ks = ks[:0]
	for k := range r.Counters {
		ks = append(ks, k)
	}
	sort.Strings(ks)
	parts = parts[:0]
	for _, k := range ks {
		parts = append(parts, fmt.Sprintf("%s=%d", k, r.Counters[k]))
	}
	if len(parts) > 0 {
		fmt.Printf("  counters: %s\n", strings.Join(parts, " "))
	}
}

func truncate(s string, n int) string {
	if len(s) > n {
		return s[:n] + "…"
	}
	return s
}

func sanitize(s string) string {
	var b strings.Builder
	for _, r := range s {
		if (r >= 'a' && r <= 'z') || (r >= 'A' && r <= 'Z') || (r >= '0' && r <= '9') || r == '-' || r == '_' {
			b.WriteRune(r)
		} else {
			b.WriteByte('_')
		}
		if b.Len() > 60 {
			break
		}
	}
	return b.String()
}

func appendUniq(xs []string, s string) []string {
	for _, x := range xs {
		if x == s {
			return xs
		}
	}
	return append(xs, s)
}

func jsonOrString(b []byte) json.RawMessage {
	if len(b) > 0 && json.Valid(b) {
		return json.RawMessage(b)
	}
	r, _ := json.Marshal(string(b))
	return r
}

var crashSiteRe = regexp.MustCompile(`(?m)^github\.com/jotaen/klog/([^\s(]+)`)

func crashSite(stderr string) string {
	// first klog frame after the "panic:" / "fatal error:" line
	i := strings.Index(stderr, "panic:")
	if j := strings.Index(stderr, "fatal error:"); i < 0 || (j >= 0 && j < i) {
		i = j
	}
	if i < 0 {
		i = 0
	}
	if m := crashSiteRe.FindStringSubmatch(stderr[i:]); m != nil {
		return m[1]
	}
	return "?"
}

func runWithTimeout(cmd *exec.Cmd, d time.Duration) (string, bool) {
	var out bytes.Buffer
	cmd.Stdout = &out
	cmd.Stderr = &out
	if err := cmd.Start(); err != nil {
		return err.Error(), false
	}
	done := make(chan error, 1)
	go func() { done <- cmd.Wait() }()
	select {
	case err := <-done:
		s := out.String()
		if err != nil {
			if _, ok := err.(*exec.ExitError); ok && !strings.Contains(s, "REPRODUCED") && (strings.Contains(s, "panic:") || strings.Contains(s, "fatal error:")) {
				s += "\nCRASHED\n"
			}
		}
		return s, false
	case <-time.After(d):
		cmd.Process.Kill()
		<-done
		return out.String() + "\nTIMEOUT\n", true
	}
}

func confirmHang(self, scratch, id string, marker []byte) bool {
	v := Violation{Property: id, Sig: "hang", Case: jsonOrString(marker)}
	path := filepath.Join(scratch, "hang.json")
	b, _ := json.Marshal(v)
	os.WriteFile(path, b, 0644)
	for i := 0; i < 2; i++ {
		cmd := exec.Command(self, "replay-quiet", path)
		_, timedOut := runWithTimeout(cmd, 60*time.Second)
		if !timedOut {
			return false
		}
	}
	return true
}

func countDistinct(files []string) int64 {
	var all []uint64
	for _, f := range files {
		b, err := os.ReadFile(f)
		if err != nil {
			continue
		}
		for i := 0; i+8 <= len(b); i += 8 {
			all = append(all, binary.LittleEndian.Uint64(b[i:]))
		}
	}
	sort.Slice(all, func(i, j int) bool { return all[i] < all[j] })
	var n int64
	for i, h := range all {
		if i == 0 || h != all[i-1] {
			n++
		}
	}
	return n
}

// ---------------------------------------------------------------- replay

func runReplay(path string, verbose bool) int {
	b, err := os.ReadFile(path)
	if err != nil {
		fmt.Fprintln(os.Stderr, err)
		return 2
	}
	var v Violation
	if err := json.Unmarshal(b, &v); err != nil {
		fmt.Fprintln(os.Stderr, err)
		return 2
	}
	ch := Lookup(v.Property)
	if ch == nil || ch.Replay == nil {
		fmt.Fprintln(os.Stderr, "no replay for", v.Property)
		return 2
	}
	if os.Getenv("KV_SCRATCH") == "" {
		d := fmt.Sprintf("/dev/shm/klogverif.replay.%d", os.Getpid())
		os.MkdirAll(d, 0755)
		os.Setenv("KV_SCRATCH", d)
		defer os.RemoveAll(d)
	}
	c := newCtx(ch, Thorough, time.Time{})
	c.Replaying = true
	ch.Replay(c, v.Case)
	if len(c.res.Violations) == 0 {
		fmt.Println("NOT-REPRODUCED")
		return 0
	}
	for _, r := range c.res.Violations {
		fmt.Printf("REPRODUCED sig=%s\n", r.Sig)
		if verbose {
			fmt.Printf("  case=%s\n  %s\n", string(r.Case), strings.ReplaceAll(r.Detail, "\n", "\n  "))
		}
	}
	return 1
}

// Scratch returns this process's private scratch directory (tmpfs).
func Scratch() string {
	d := os.Getenv("KV_SCRATCH")
	if d == "" {
		d = fmt.Sprintf("/dev/shm/klogverif.solo.%d", os.Getpid())
	}
	os.MkdirAll(d, 0755)
	return d
}
