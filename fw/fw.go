// Package fw is the small runtime shared by all checks: work-unit sharding over
// worker processes, crash attribution, result merging, known-finding matching,
// replay confirmation and evidence writing.
package fw

import (
	"encoding/binary"
	"encoding/json"
	"fmt"
	"os"
	"runtime/debug"
	"sort"
	"strings"
	"time"
)

type Tier string

const (
	Quick    Tier = "quick"
	Thorough Tier = "thorough"
)

// Violation is one observed disagreement between klog and the oracle.
type Violation struct {
	Property string          `json:"property"`
	Sig      string          `json:"sig"`    // violation class; part of the known-finding key
	Case     json.RawMessage `json:"case"`   // replayable case descriptor (check-specific)
	Detail   string          `json:"detail"` // human-readable explanation
}

// Check is one property's decision procedure.
type Check struct {
	ID          string
	Title       string
	Rule        string   // how cases are enumerated and what makes one non-trivial
	Assumptions []string // trusted base
	NeedsInstr  bool     // needs the goinstr overlay build
	// Units returns the number of independent work units for the tier.
	Units func(tier Tier) int
	// RunUnit runs one work unit, reporting into c.
	RunUnit func(c *Ctx, unit int)
	// Replay re-runs one recorded case, reporting violations into c.
	Replay func(c *Ctx, cas json.RawMessage)
	// Finalize (optional) is run by the parent on the merged result; it may add
	// violations or coverage keys (e.g. "all n! arrival orders were observed").
	Finalize func(r *Result)
}

var registry = map[string]*Check{}

func Register(c *Check) { registry[c.ID] = c }
func Lookup(id string) *Check {
	return registry[id]
}
func AllIDs() []string {
	var ids []string
	for id := range registry {
		ids = append(ids, id)
	}
	sort.Strings(ids)
	return ids
}

// Result is what one worker (or the merge of all workers) produced.
type Result struct {
	Evaluations  int64               `json:"evaluations"`
	Outcomes     map[string]int64    `json:"outcomes"`
	Counters     map[string]int64    `json:"counters"`
	Samples      []any               `json:"samples"`
	Violations   []Violation         `json:"violations"`
	ViolationsN  int64               `json:"violations_n"`
	Caps         []string            `json:"caps"`
	DistinctFile string              `json:"distinct_file,omitempty"`
	DistinctN    int64               `json:"distinct_n"`
	DistinctCap  bool                `json:"distinct_capped"`
	UnitsDone    int                 `json:"units_done"`
	Notes        []string            `json:"notes"`
	Extra        map[string]any      `json:"extra,omitempty"`
	MaxOf        map[string]int64    `json:"max_of,omitempty"`
	SetOf        map[string][]string `json:"set_of,omitempty"`
}

// Ctx is handed to a check while it runs a unit.
type Ctx struct {
	Tier      Tier
	Check     *Check
	Seed      int64
	deadline  time.Time
	res       *Result
	distinct  map[uint64]struct{}
	distCap   int
	marker    *os.File
	violLog   *os.File
	sampleAt  int64
	sets      map[string]map[string]struct{}
	Replaying bool
}

const maxViolationsKept = 40

func newCtx(ch *Check, tier Tier, deadline time.Time) *Ctx {
	return &Ctx{
		Tier: tier, Check: ch, deadline: deadline,
		res:      &Result{Outcomes: map[string]int64{}, Counters: map[string]int64{}, MaxOf: map[string]int64{}},
		distinct: map[uint64]struct{}{}, distCap: 3_000_000, sampleAt: 1,
		sets: map[string]map[string]struct{}{},
	}
}

// Eval counts n evaluated cases.
func (c *Ctx) Eval(n int) { c.res.Evaluations += int64(n) }

// Outcome adds one observation to the outcome histogram.
func (c *Ctx) Outcome(name string)           { c.res.Outcomes[name]++ }
func (c *Ctx) OutcomeN(name string, n int64) { c.res.Outcomes[name] += n }

// Count adds to a named counter (states, transitions, …).
func (c *Ctx) Count(name string, n int64) { c.res.Counters[name] += n }

// Max records the maximum of a named quantity.
func (c *Ctx) Max(name string, v int64) {
	if old, ok := c.res.MaxOf[name]; !ok || v > old {
		c.res.MaxOf[name] = v
	}
}

// SetAdd adds a member to a named (small) set that is unioned over all workers.
func (c *Ctx) SetAdd(name, member string) {
	m := c.sets[name]
	if m == nil {
		m = map[string]struct{}{}
		c.sets[name] = m
	}
	if len(m) < 100000 {
		m[member] = struct{}{}
	}
}

// Nontrivial records the hash of a distinct non-trivial case.
func (c *Ctx) Nontrivial(h uint64) {
	if len(c.distinct) >= c.distCap {
		if _, ok := c.distinct[h]; !ok {
			c.res.DistinctCap = true
		}
		return
	}
	c.distinct[h] = struct{}{}
}

// NontrivialBytes is Nontrivial(Hash(b)).
func (c *Ctx) NontrivialBytes(b []byte)  { c.Nontrivial(Hash(b)) }
func (c *Ctx) NontrivialString(s string) { c.Nontrivial(HashString(s)) }

// Sample keeps a logarithmically thinning selection of cases written out in the evidence.
func (c *Ctx) Sample(mk func() any) {
	n := c.res.Evaluations
	if n >= c.sampleAt && len(c.res.Samples) < 12 {
		c.res.Samples = append(c.res.Samples, mk())
		c.sampleAt = c.sampleAt*8 + 1
	}
}

// Cap records that a bound or budget cut the enumeration short.
func (c *Ctx) Cap(reason string) {
	for _, r := range c.res.Caps {
		if r == reason {
			return
		}
	}
	c.res.Caps = append(c.res.Caps, reason)
}

func (c *Ctx) Note(s string) {
	if len(c.res.Notes) < 50 {
		c.res.Notes = append(c.res.Notes, s)
	}
}

// Expired says whether the internal time budget is used up (the caller stops
// enumerating; the run is then reported as not exhaustive, exit status 0).
func (c *Ctx) Expired() bool {
	if c.deadline.IsZero() {
		return false
	}
	if time.Now().After(c.deadline) {
		c.Cap("time budget reached")
		return true
	}
	return false
}

// Violation records a violation.
func (c *Ctx) Violation(sig string, cas any, detail string) {
	c.res.ViolationsN++
	if len(c.res.Violations) >= maxViolationsKept {
		// keep at most one per signature beyond the cap
		for _, v := range c.res.Violations {
			if v.Sig == sig {
				return
			}
		}
		if len(c.res.Violations) >= 4*maxViolationsKept {
			return
		}
	}
	raw, err := json.Marshal(cas)
	if err != nil {
		raw, _ = json.Marshal(fmt.Sprintf("%#v", cas))
	}
	if len(detail) > 4000 {
		detail = detail[:4000] + "…"
	}
	v := Violation{Property: c.Check.ID, Sig: sig, Case: raw, Detail: detail}
	c.res.Violations = append(c.res.Violations, v)
	if c.violLog != nil {
		// written through immediately: a later crash of this process must not lose the finding
		if b, err := json.Marshal(v); err == nil {
			c.violLog.Write(append(b, '\n'))
		}
	}
}

// ViolationCount is the number of violations reported so far in this context.
func (c *Ctx) ViolationCount() int64 { return c.res.ViolationsN }

// Mark notes the case about to run so that a process crash (a panic in a
// goroutine klog itself started cannot be recovered) is attributed to it.
func (c *Ctx) Mark(cas []byte) {
	if c.marker == nil {
		return
	}
	var hdr [4]byte
	n := len(cas)
	if n > 60000 {
		n = 60000
	}
	binary.LittleEndian.PutUint32(hdr[:], uint32(n))
	c.marker.WriteAt(cas[:n], 4)
	c.marker.WriteAt(hdr[:], 0)
}

// Try runs f, converting a panic on this goroutine into a value.
func Try(f func()) (panicked bool, val any, stack string) {
	defer func() {
		if r := recover(); r != nil {
			panicked = true
			val = r
			stack = trimStack(string(debug.Stack()))
		}
	}()
	f()
	return
}

func trimStack(s string) string {
	lines := strings.Split(s, "\n")
	var out []string
	for _, l := range lines {
		if strings.Contains(l, "runtime/debug") || strings.Contains(l, "fw.Try") {
			continue
		}
		out = append(out, l)
		if len(out) > 24 {
			break
		}
	}
	return strings.Join(out, "\n")
}

// PanicSite extracts the first klog frame of a stack (used in violation signatures
// so that different panics are different findings).
func PanicSite(stack string) string {
	for _, l := range strings.Split(stack, "\n") {
		l = strings.TrimSpace(l)
		if strings.HasPrefix(l, "github.com/jotaen/klog/") {
			if i := strings.LastIndex(l, "("); i > 0 {
				l = l[:i]
			}
			return strings.TrimPrefix(l, "github.com/jotaen/klog/")
		}
	}
	return "?"
}

func Hash(b []byte) uint64 {
	h := uint64(14695981039346656037)
	for _, x := range b {
		h ^= uint64(x)
		h *= 1099511628211
	}
	return h
}

func HashString(s string) uint64 {
	h := uint64(14695981039346656037)
	for i := 0; i < len(s); i++ {
		h ^= uint64(s[i])
		h *= 1099511628211
	}
	return h
}

func HashMix(h uint64, v uint64) uint64 {
	h ^= v + 0x9e3779b97f4a7c15 + (h << 6) + (h >> 2)
	return h
}
