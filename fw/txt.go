package fw

import (
	"encoding/json"
	"strconv"
	"unicode/utf8"
)

// Txt is a byte string that survives JSON: valid UTF-8 is written as a JSON string,
// anything else as {"goquoted": "<Go-quoted ASCII literal>"} (JSON strings cannot carry
// invalid UTF-8, and a replay must use the exact bytes).
type Txt string

func (t Txt) MarshalJSON() ([]byte, error) {
	if utf8.ValidString(string(t)) {
		return json.Marshal(string(t))
	}
	return json.Marshal(map[string]string{"goquoted": strconv.QuoteToASCII(string(t))})
}

func (t *Txt) UnmarshalJSON(b []byte) error {
	var s string
	if json.Unmarshal(b, &s) == nil {
		*t = Txt(s)
		return nil
	}
	var m map[string]string
	if err := json.Unmarshal(b, &m); err != nil {
		return err
	}
	u, err := strconv.Unquote(m["goquoted"])
	if err != nil {
		return err
	}
	*t = Txt(u)
	return nil
}
