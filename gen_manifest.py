#!/usr/bin/env python3
"""Generates /verif/MANIFEST.json from the table below (kept in one place so the manifest is always valid)."""
import json, subprocess

HOOK_COMMITS = ["ca6d3b8", "a1d2aab"]

# id -> (technique, level text, level note, design ref)
CLAIMED = {
 "C03": ("bounded exhaustive product of file layouts x mutating operations on real files; byte-level physical-line oracle (no parser): common prefix/suffix of lines plus the edit shape allowed per operation class",
         "For every (layout, operation) where the command succeeds, the bytes before and after are compared line by line: every original line must survive byte for byte (text and line ending) in order; additions must be one contiguous block; stop/switch may only replace the placeholder run (the first run of question marks of the line) by one token and append text to the entry's last line; pause --extend may only replace the duration token; a final unterminated line may only gain a line ending when lines follow it.",
         "Trusted: the physical-line splitter and the per-class edit shapes (taken from the statement). Quick uses every 13th layout of the formatting product.",
         "DESIGN.md §4 C03"),
 "C05": ("bounded exhaustive product of valid and invalid files (every single fault-catalogue edit of 15 files) x 76 commands incl. failure-directed ones, all through the complete CLI with real exit status and real write path",
         "For every (file, command): exit 0 implies the file on disk parses without errors (klog and reference); exit != 0 implies identical bytes, an error message, and no other file in the directory; a panic is a violation. Multi-step commands whose second step fails are included.",
         "Trusted: specmodel (lenient reading of klog's own don't-care zones). I/O faults and crash points are outside the property's quantifier. PAIRS: every pair of catalogue edits on different lines (176 k files; quick every 8th) x the same commands on the real context. ENV: one external change of the file (unparseable / record gone / record appended) before refresh 0, 1 or 2 of a running `klog pause`.",
         "DESIGN.md §4 C05"),
 "C11": ("bounded exhaustive product of per-record style combinations (incl. ties and whitespace-only lines) x commands x configurations; independent style inspector on raw bytes; determinism decided by exploring every map-iteration order within a deviation bound on the instrumented build",
         "For every (file, command, configuration): a valid command must succeed, the result must be valid, every inserted line's ending and indentation, every generated date separator, clock convention, dash spacing and placeholder length must be a style the target record exhibits, else one the other records use, else the default, unless an explicit value or configured preference applies. Determinism: a fixed stride of cases is re-executed under every map iteration order within the bound and must yield identical bytes.",
         "Trusted: the style inspector (generous reading of 'exhibits'), cmdmodel.go for must-succeed, vrt.MapSeq owning all map ranges.",
         "DESIGN.md §4 C11"),
 "C17": ("exhaustive sweep of all 1440 clock minutes x day kinds x roundings x date selections x record layouts x {start, stop, switch} and total --now, against an independent rounding/shift/fallback model",
         "Every minute of the day is tried for every combination; the written time must denote exactly the rounded instant relative to the target record's date, stop's fallback must follow the documented rule, --now totals must equal the reference closing, and whenever the time is unrepresentable or a range cannot be closed the command must fail with a message and leave the file untouched - never crash, never write another time.",
         "Trusted: cmdmodel.go (rounding: nearest multiple, ties up; shift by +-24h; representable range) and specmodel.CloseAt. Each --now case is followed by `today --now --follow` over refreshes at +0/+1/+61 minutes (also past midnight): every refresh shows the total of its own instant or refuses.",
         "DESIGN.md §4 C17"),
 "C04": ("explicit-state search over command histories (state = file bytes): all command sequences up to depth 3/4 over a 61-command alphabet from 15 initial files, plus all pause tick sequences; every transition compared with an abstract record-list model",
         "Every transition of the explored history graph executes the real command on a real file (first command and a fixed stride through the complete CLI, the rest through the command structs on the real context) and is compared with the abstract model applied to the reference reading of the file before: success/failure, failure leaves the bytes untouched, success yields exactly the predicted records (values, summaries, order, chronological position of new records) under the reference parser, and klog re-reads its own output.",
         "Trusted: the abstract command model (cmdmodel.go) and specmodel. Depth 3 (quick) / 4 (thorough); fixed clock.",
         "DESIGN.md §4 C04"),
 "C12": ("bounded exhaustive enumeration of all ordered pairs/triples of calendar-boundary dates x aggregations x fill/diff x filters; report rows read back and compared with independent calendar bucketing (subset-sum identification of records)",
         "Each record carries a distinct power-of-two total, so a row's total identifies exactly which records landed in it. For every file x aggregation x flag combination the rows must be exactly the expected periods in chronological order, each with the total/should/diff of exactly the records whose date lies in that period by the independent calendar, filled rows empty, the grand total equal to the row sum and to `klog total`; `klog today` must split the same total into current and other records (with and without --now).",
         "Trusted: specmodel calendar; the report table layout (fixed label columns, '=' ruler) used for reading rows back. `--fill` only for spans <= 800 days. --chart on every other document; the complete `today --diff [--now]` table and `total/report --now --entry-type T` for every EV document x 3 clocks.",
         "DESIGN.md §4 C12"),
 "C13": ("bounded exhaustive enumeration of filter-clause combinations (all date clauses around record dates, periods, relative shortcuts under many clocks, tag and entry-type queries, pairs and triples, sort) against an independent predicate",
         "Every clause combination over 6 base files runs through the complete CLI (`klog json`, real flag decoding) and the selected records/entries are compared field by field with the independent predicate applied to the reference denotation: exactly the matching records and entries, unchanged, in original order; --sort as a date-monotone permutation; combined clauses as intersections. The sort routine itself is run on all 2^13+2^14 two-date assignments of 13/14 records.",
         "Trusted: specmodel parser, tag scanner and calendar. One lower/upper date bound at a time. BULK: 50 k (thorough 300 k) enumerated two-record documents x a 63-query matrix; TZ: relative shortcuts under local wall clocks around daylight-saving transitions in five zones (tzdata compiled in).",
         "DESIGN.md §4 C13"),
 "C18": ("exhaustive product documents x commands x styling configurations through the complete CLI; own SGR stripper; row-width check on every table",
         "For every (document, command line, configuration): the three ways of disabling styling give escape-free, identical output; every styled scheme's output equals it after removing SGR sequences (no other escape may remain); every row of the report/tags/today tables has the same number of visible characters.",
         "Trusted: the SGR stripper. Inputs contain no ESC bytes (not in the quantifier). BULK families (command structs on the real context): every EV document of C06 and 12 k tag-table documents x 14 commands x 4 configurations.",
         "DESIGN.md §4 C18"),
 "C19": ("explicit-state model checking of the full bookmark-database state graph: every state built through the real CLI, every operation executed in every state, compared with a plain map; state canonicity checked on every transition",
         "The state (bookmarks.json) space is enumerated completely (256 states quick, 4096 thorough); in every state every set/unset/clear operation with every name spelling and target is executed through klog.Run and compared with the map model (result map read back with a strict JSON parser, failure = unchanged bytes + non-zero exit), list/info/@name resolution/default-bookmark resolution are compared on every state, and the bytes reached by (state, op) must equal those of the successor state built on its own shortest path.",
         "Trusted: the map model and the name normalisation rule; the database file is the whole state.",
         "DESIGN.md §4 C19"),
 "C02": ("bounded exhaustive enumeration of valid documents over an arithmetic value menu (all sequences of <=3 entries; two/three records; --now clock/date products) against an independent integer-minute evaluator",
         "Every document of the families is evaluated by klog (service.Total/ShouldTotalSum/Diff, per record and per entry; a fixed stride also through `klog total --diff --decimal`, `klog json` and `klog print --with-totals` via the complete CLI) and compared with the reference evaluator: shifted times, the 24:00 spellings, overlapping ranges, duplicate dates, open ranges with and without --now (refusal conditions included).",
         "Trusted: specmodel parser/evaluator. Bounds: <=3 entries per record, <=3 records. Histories: `today --now --diff --follow` over three refreshes on one live context (clock advancing, file unchanged or swapped and back) must equal fresh one-shot runs.",
         "DESIGN.md §4 C02"),
 "C07": ("schedule-exhaustive DFS over a cooperative scheduler on the mechanically instrumented parallel parser (all interleavings for 2-3 workers with state pruning, preemption-bounded for 4-6), plus exhaustive inputs x worker counts against the serial parser",
         "Two legs. (1) Inputs x chunkings: ALL token strings up to the bound x EVERY worker count 1..len+2 (a chunk boundary at every byte offset, inside multi-byte characters and CRLF) compared with the serial parser on records, blocks, line numbers and errors; the CLI clause over NumCpus {1,2,3,8}. (2) Schedules: goinstr rewrites go/chan/WaitGroup of the current parallel.go to the vrt scheduler; a stateless DFS explores every interleaving of workers, closer and collector (unbounded with sound state-key pruning for n<=3 (quick) / n<=4 (thorough), preemption-bounded above), checking deadlock, send-on-closed, thread panics and result equality on every execution; the search must observe all n! delivery orders (vacuity guard).",
         "Trusted: vrt's model of channel/WaitGroup semantics (DESIGN Appendix C); goinstr's mechanical rewrite (re-derived from the tree at check time). Memory-model effects below synchronisation granularity are only covered by the separate -race pass.",
         "DESIGN.md §4 C07"),
 "C08": ("exhaustive enumeration of all accepted texts among token strings / formatting product / byte-menu documents; block lines compared with an independent line splitter, per-block re-parse, no-op reconcile identity",
         "For every accepted text (serial and parallel with 2, 3 workers): the concatenated block lines equal the input byte for byte, overall line indices are consecutive from 0, every block has exactly one run of non-blank lines and re-parses to exactly its record, blank-only texts give no blocks, and a reconcile without steps returns the identical text.",
         "Trusted: specmodel.SplitLines. 'Valid' = accepted by klog's serial parser (the parallel parser must then accept it, too). The no-op write-back clause is also decided on real files through klog's own context (read - parse - reconcile nothing - write, 1 and 3 CPUs).",
         "DESIGN.md §4 C08"),
 "C10": ("exhaustive enumeration of single/double rule-violating edits at every line; error facts compared with an independent line splitter and the reference parser's first offending line; both renderings parsed back",
         "Every rejected text of the families: each error's line exists and is quoted exactly, position/length stay within the line, ascending order, first error on the first line where the reference grammar has no continuation, identical errors from the parallel parser; the terminal report and the JSON report are parsed back and must show the same numbers.",
         "Trusted: specmodel.Parse (first offending line), independent line splitter. Texts with don't-care zones or Zs-only lines are exempt from the first-line clause only.",
         "DESIGN.md §4 C10"),
 "C14": ("exhaustive enumeration of ALL summaries of <=6/7 symbols over a 14-symbol alphabet in every summary position against a hand-written tag scanner; totals family under all map orders within a deviation bound",
         "Every string over the alphabet is scanned by klog (summary constructors and real parser) and by the reference scanner: tag list in canonical spelling and 22 match queries. Totals: every combination of 8 tag placements at record level and on 3 entries, through service.AggregateTotalsByTags, `klog tags -v -c` and `klog json`, under the canonical and (for a fixed stride) every non-canonical map iteration order within the bound.",
         "Trusted: specmodel.ScanTags / per-entry set semantics; vrt.MapSeq owning all map ranges.",
         "DESIGN.md §4 C14"),
 "C20": ("bounded exhaustive enumeration of valid/invalid documents and of ALL short strings over a JSON-hostile alphabet; output parsed by an own strict RFC 8259 parser and compared field by field with the reference denotation",
         "Every `klog json` output ({plain, --pretty, --sort asc/desc, --date}) must be one well-formed JSON document with exactly the documented keys, exactly one of records/errors non-null, every field equal to the reference denotation, the arithmetic relations holding, and for invalid input the error objects equal to the parser's errors and to the terminal report.",
         "Trusted: specmodel.ParseJSON and specmodel.Parse. Invalid UTF-8 may only be coerced to U+FFFD. Also: --tag / --entry-type variants, every ordered pair of 22 boundary time literals, `json --now` on 7200 clock-relative documents.",
         "DESIGN.md §4 C20"),
 "C06": ("exhaustive enumeration of ALL strings of <=k tokens over a 30-token hostile alphabet (and k+1 over a 16-token core), each run through the real serial and parallel parsers, all error renderers and every read-only command, in crash-isolated worker processes",
         "Totality is decided on a complete finite space: every string of at most 4 (quick) / 5 (thorough) tokens over an alphabet with one token per short-cut in the parser (dates, indentations, both line endings, lone CR, NBSP, invalid and truncated UTF-8, NUL, 20-digit and near-int64 numbers, every punctuation the grammar knows), plus long-line and hand-picked deep cases. Each is parsed serially and with 2 and 3 workers; the result shape is checked; every error accessor, the terminal and JSON error renderings are invoked; every accepted input runs through print/total/report(5 aggregations, fill, chart)/tags/today/json with two clock readings. A panic in a klog-started goroutine kills the worker and is attributed through a pre-written case marker, then confirmed by replay.",
         "Bounded by token count; the property's sampling clauses (coverage-guided mutation, random bytes) belong to a different technique family and are not covered. Known findings: huge-integer panics pinned by the existing tests.",
         "DESIGN.md §4 C06"),
 "C09": ("bounded exhaustive enumeration of valid documents (grammar, formatting and notation products); print output compared byte-wise with an independently rendered canonical form, re-parsed by reference and klog, printed again",
         "For every reference-valid document of the families (2.2 M in quick) the real serialiser's output must equal the canonical rendering computed independently from the reference denotation (so values, notation and layout are all decided), must re-parse to the same records under both parsers, and must be a fixed point. The notation sweep and every 64th case also go through `klog print --no-style` via the complete CLI.",
         "Trusted: specmodel parser and the independent canonical renderer. Should-total compared by value; irregular dash spacing may normalise either way (the statement does not say). Known finding: a summary line ending in a carriage return cannot survive printing (KF-C09-summary-line-ends-in-CR).",
         "DESIGN.md §4 C09"),
 "C01": ("bounded exhaustive enumeration of documents from the spec grammar and of all single/double rule-violating edits, three-way compared (generator denotation = reference parser = klog)",
         "Every document of the stated families (1-3 records x value menus, the full formatting product, every time/duration literal in a skeleton, every single and double edit from a 106-operator catalogue at every line) is parsed by the real serial parser and by the parallel parser with 2 and 3 workers, each and compared with an independent reference parser written from the specification: accept/reject and the full denotation (dates, should-totals, summaries, entry kinds, times with shifts and notation, durations with sign notation, dash spacing, placeholder length). The space is enumerated completely, not sampled.",
         "Trusted: specmodel.Parse (cross-checked against the generator's by-construction denotation on every grammar-derived document), don't-care zones listed in DESIGN §3.1, Go's Unicode tables. Bounds: <=3 records, <=3 entries per record, edit pairs on 14 (quick) / 60 (thorough) base documents.",
         "DESIGN.md §4 C01"),
 "C16": ("exhaustive finite-domain sweeps (all time strings, all time pairs, all time+duration sums, all date strings, all duration layouts) against the reference value grammar and integer arithmetic",
         "The domains named in the property's quantifier are finite and are enumerated completely on every run (62 M evaluations): acceptance, denotation, canonical re-serialisation, notation preservation, equivalence classes, range validity/duration and Plus with its representability boundary are compared with the reference for every element.",
         "Trusted: specmodel value recognisers (character-level, no regexps) and integer minute arithmetic. Integers > 10^9 are a don't-care.",
         "DESIGN.md §4 C16"),
 "C15": ("exhaustive finite-domain sweep (all 3,652,425 dates, all period pattern strings) against an independent integer calendar",
         "Complete enumeration of the property's whole quantifier domain: every date 0000-01-01..9999-12-31 and every pattern string of the four shapes for all 10^4 years, each compared with an independent calendar model; bucket-hash injectivity is decided globally (distinct hashes = number of periods). Nothing is sampled, so within the stated domain this is a decision, not a test.",
         "Trusted: specmodel calendar (cross-checked against Go's time package on every day in every run), the Go toolchain. Week periods at the ends of the representable range are expected clamped. Malformed patterns: shape near-misses plus every single-character substitution/insertion/deletion (15 hostile characters) on one pattern of each shape, all years.",
         "DESIGN.md §4 C15"),
}

NOT_YET = {
}

ALL = ["C%02d" % i for i in range(1, 21)]

def main():
    checks = []
    for pid in ALL:
        if pid not in CLAIMED:
            continue
        tech, text, note, ref = CLAIMED[pid]
        checks.append({
            "property_id": pid,
            "quick_cmd": f"./check {pid} quick",
            "thorough_cmd": f"./check {pid} thorough",
            "evidence_file": f"/verif/evidence/{pid}.json",
            "replay_cmd_template": "./check replay {path}",
            "engine": "kv",
            "level_claimed": {"category": "model_checking", "text": text, "design_ref": ref},
            "level_note": note,
            "technique": tech,
        })
    na = []
    for pid in ALL:
        if pid not in CLAIMED:
            na.append({"property_id": pid, "reason": NOT_YET.get(pid, "check not built yet in this session (planned, see DESIGN.md §4); not claimed until it runs clean and has been shown to detect seeded breakage")})
    m = {
        "version": 1,
        "setup_cmd": "./setup.sh",
        "hooks": {
            "guard": "verif",
            "enable": "go1.26 build -tags verif (GOFLAGS=-mod=mod GOPROXY=off GOSUMDB=off GOTOOLCHAIN=local); the harness module replaces github.com/jotaen/klog with /repo",
            "baseline_off_cmd": "cd /repo && GOFLAGS=-mod=mod GOPROXY=off GOTOOLCHAIN=local go1.26 test -json -vet=off -count=1 -timeout 25m ./...",
            "source_commits": HOOK_COMMITS,
            "add_only": True,
        },
        "engines": [
            {"name": "kv", "path": "/verif/cmd/kv", "serves_properties": sorted(CLAIMED.keys()),
             "kind_free_text": "hand-written bounded exhaustive explorer: work-unit sharding over 16 crash-isolated worker processes, enumeration of documents/values/histories/schedules against the independent reference model in /verif/specmodel; every case runs the real klog code"},
        ],
        "checks": checks,
        "not_applicable": na,
        "notes": "All checks rebuild from /repo's working tree (./check builds cmd/kv with -tags verif against the replace directive). Known findings: /verif/known_findings.json.",
    }
    json.dump(m, open("/verif/MANIFEST.json", "w"), indent=1)
    print("MANIFEST.json written:", len(checks), "claimed,", len(na), "not claimed")

if __name__ == "__main__":
    main()
