#!/usr/bin/env python3
"""Generates /verif/MANIFEST.json from the table below (kept in one place so the manifest is always valid)."""
import json, subprocess

HOOK_COMMITS = ["ca6d3b8", "a1d2aab"]

# id -> (technique, level text, level note, design ref)
CLAIMED = {
 "C06": ("exhaustive enumeration of ALL strings of <=k tokens over a 30-token hostile alphabet (and k+1 over a 16-token core), each run through the real serial and parallel parsers, all error renderers and every read-only command, in crash-isolated worker processes",
         "Totality is decided on a complete finite space: every string of at most 4 (quick) / 5 (thorough) tokens over an alphabet with one token per short-cut in the parser (dates, indentations, both line endings, lone CR, NBSP, invalid and truncated UTF-8, NUL, 20-digit and near-int64 numbers, every punctuation the grammar knows), plus long-line and hand-picked deep cases. Each is parsed serially and with 2 and 3 workers; the result shape is checked; every error accessor, the terminal and JSON error renderings are invoked; every accepted input runs through print/total/report(5 aggregations, fill, chart)/tags/today/json with two clock readings. A panic in a klog-started goroutine kills the worker and is attributed through a pre-written case marker, then confirmed by replay.",
         "Bounded by token count; the property's sampling clauses (coverage-guided mutation, random bytes) belong to a different technique family and are not covered. Known findings: huge-integer panics pinned by the existing tests.",
         "DESIGN.md §4 C06"),
 "C09": ("bounded exhaustive enumeration of valid documents (grammar, formatting and notation products); print output compared byte-wise with an independently rendered canonical form, re-parsed by reference and klog, printed again",
         "For every reference-valid document of the families (2.2 M in quick) the real serialiser's output must equal the canonical rendering computed independently from the reference denotation (so values, notation and layout are all decided), must re-parse to the same records under both parsers, and must be a fixed point. The notation sweep and every 64th case also go through `klog print --no-style` via the complete CLI.",
         "Trusted: specmodel parser and the independent canonical renderer. Should-total compared by value; irregular dash spacing may normalise either way (the statement does not say).",
         "DESIGN.md §4 C09"),
 "C01": ("bounded exhaustive enumeration of documents from the spec grammar and of all single/double rule-violating edits, three-way compared (generator denotation = reference parser = klog)",
         "Every document of the stated families (1-3 records x value menus, the full formatting product, every time/duration literal in a skeleton, every single and double edit from a 90-operator catalogue at every line) is parsed by the real parser and compared with an independent reference parser written from the specification: accept/reject and the full denotation (dates, should-totals, summaries, entry kinds, times with shifts and notation, durations with sign notation, dash spacing, placeholder length). The space is enumerated completely, not sampled.",
         "Trusted: specmodel.Parse (cross-checked against the generator's by-construction denotation on every grammar-derived document), don't-care zones listed in DESIGN §3.1, Go's Unicode tables. Bounds: <=3 records, <=3 entries per record, edit pairs on 6 (quick) / 40 (thorough) base documents.",
         "DESIGN.md §4 C01"),
 "C16": ("exhaustive finite-domain sweeps (all time strings, all time pairs, all time+duration sums, all date strings, all duration layouts) against the reference value grammar and integer arithmetic",
         "The domains named in the property's quantifier are finite and are enumerated completely on every run (62 M evaluations): acceptance, denotation, canonical re-serialisation, notation preservation, equivalence classes, range validity/duration and Plus with its representability boundary are compared with the reference for every element.",
         "Trusted: specmodel value recognisers (character-level, no regexps) and integer minute arithmetic. Integers > 10^9 are a don't-care.",
         "DESIGN.md §4 C16"),
 "C15": ("exhaustive finite-domain sweep (all 3,652,425 dates, all period pattern strings) against an independent integer calendar",
         "Complete enumeration of the property's whole quantifier domain: every date 0000-01-01..9999-12-31 and every pattern string of the four shapes for all 10^4 years, each compared with an independent calendar model; bucket-hash injectivity is decided globally (distinct hashes = number of periods). Nothing is sampled, so within the stated domain this is a decision, not a test.",
         "Trusted: specmodel calendar (cross-checked against Go's time package on every day in every run), the Go toolchain. Week periods at the ends of the representable range are expected clamped.",
         "DESIGN.md §4 C15"),
}

NOT_YET = {
}

ALL = ["C%02d" % i for i in range(1, 21)]

def main():
    checks = []
    for pid in ALL:
        if pid not in CLAIMED:
            continue
        tech, text, note, ref = CLAIMED[pid]
        checks.append({
            "property_id": pid,
            "quick_cmd": f"./check {pid} quick",
            "thorough_cmd": f"./check {pid} thorough",
            "evidence_file": f"/verif/evidence/{pid}.json",
            "replay_cmd_template": "./check replay {path}",
            "engine": "kv",
            "level_claimed": {"category": "model_checking", "text": text, "design_ref": ref},
            "level_note": note,
            "technique": tech,
        })
    na = []
    for pid in ALL:
        if pid not in CLAIMED:
            na.append({"property_id": pid, "reason": NOT_YET.get(pid, "check not built yet in this session (planned, see DESIGN.md §4); not claimed until it runs clean and has been shown to detect seeded breakage")})
    m = {
        "version": 1,
        "setup_cmd": "./setup.sh",
        "hooks": {
            "guard": "verif",
            "enable": "go1.26 build -tags verif (GOFLAGS=-mod=mod GOPROXY=off GOSUMDB=off GOTOOLCHAIN=local); the harness module replaces github.com/jotaen/klog with /repo",
            "baseline_off_cmd": "cd /repo && GOFLAGS=-mod=mod GOPROXY=off GOTOOLCHAIN=local go1.26 test -json -vet=off -count=1 -timeout 25m ./...",
            "source_commits": HOOK_COMMITS,
            "add_only": True,
        },
        "engines": [
            {"name": "kv", "path": "/verif/cmd/kv", "serves_properties": sorted(CLAIMED.keys()),
             "kind_free_text": "hand-written bounded exhaustive explorer: work-unit sharding over 16 crash-isolated worker processes, enumeration of documents/values/histories/schedules against the independent reference model in /verif/specmodel; every case runs the real klog code"},
        ],
        "checks": checks,
        "not_applicable": na,
        "notes": "All checks rebuild from /repo's working tree (./check builds cmd/kv with -tags verif against the replace directive). Known findings: /verif/known_findings.json.",
    }
    json.dump(m, open("/verif/MANIFEST.json", "w"), indent=1)
    print("MANIFEST.json written:", len(checks), "claimed,", len(na), "not claimed")

if __name__ == "__main__":
    main()
