module klogverif

go 1.24

require github.com/jotaen/klog v0.0.0

require (
	cloud.google.com/go v0.118.2 // indirect
	github.com/jotaen/safemath v0.0.1 // indirect
)

replace github.com/jotaen/klog => /repo
