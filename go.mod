module klogverif

go 1.26.0

require github.com/jotaen/klog v0.0.0

require (
	golang.org/x/mod v0.41.0 // indirect
	golang.org/x/sync v0.23.0 // indirect
)

require (
	cloud.google.com/go v0.118.2 // indirect
	github.com/alecthomas/kong v1.8.0 // indirect
	github.com/hashicorp/errwrap v1.1.0 // indirect
	github.com/hashicorp/go-multierror v1.1.1 // indirect
	github.com/jotaen/genie v0.0.1 // indirect
	github.com/jotaen/kong-completion v0.0.6 // indirect
	github.com/jotaen/safemath v0.0.1 // indirect
	github.com/kballard/go-shellquote v0.0.0-20180428030007-95032a82bc51 // indirect
	github.com/posener/complete v1.2.3 // indirect
	github.com/riywo/loginshell v0.0.0-20200815045211-7d26008be1ab // indirect
	golang.org/x/tools v0.50.0
)

replace github.com/jotaen/klog => /repo
