#!/bin/bash
# Run once after a fresh restore, offline: builds the framework (warms the Go build cache).
set -e
cd "$(dirname "$(readlink -f "$0")")"
export GOFLAGS=-mod=mod GOPROXY=off GOSUMDB=off GOTOOLCHAIN=local
export GOCACHE=${GOCACHE:-/verif/.work/gocache}
mkdir -p .work evidence replays
cat /repo/go.sum extra.sum | sort -u > go.sum
./check build
go1.26 build -race -o .work/racepass ./cmd/racepass || true
go1.26 test -count=1 ./specmodel/   # the reference model against the examples of the specification
echo "setup ok"
