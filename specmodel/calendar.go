// Package specmodel is the reference semantics of the klog file format and of
// the evaluation rules, written from Specification.md and from the command
// documentation only. It deliberately imports nothing from jotaen/klog.
package specmodel

// Proleptic Gregorian calendar on the domain 0000-01-01 .. 9999-12-31,
// by integer arithmetic (days-from-civil / civil-from-days).

type Date struct{ Y, M, D int }

const (
	MinDay = 0       // 0000-01-01
	MaxDay = 3652424 // 9999-12-31
)

func IsLeap(y int) bool { return y%4 == 0 && (y%100 != 0 || y%400 == 0) }

func MonthLen(y, m int) int {
	switch m {
	case 1, 3, 5, 7, 8, 10, 12:
		return 31
	case 4, 6, 9, 11:
		return 30
	case 2:
		if IsLeap(y) {
			return 29
		}
		return 28
	}
	return 0
}

func ValidDate(y, m, d int) bool {
	return y >= 0 && y <= 9999 && m >= 1 && m <= 12 && d >= 1 && d <= MonthLen(y, m)
}

// daysFromCivil returns days since 1970-01-01 (algorithm by H. Hinnant).
func daysFromCivil(y, m, d int) int {
	if m <= 2 {
		y--
	}
	var era int
	if y >= 0 {
		era = y / 400
	} else {
		era = (y - 399) / 400
	}
	yoe := y - era*400
	mp := (m + 9) % 12
	doy := (153*mp+2)/5 + d - 1
	doe := yoe*365 + yoe/4 - yoe/100 + doy
	return era*146097 + doe - 719468
}

var epoch0 = daysFromCivil(0, 1, 1)

// DayNumber maps a date to 0..MaxDay (0 = 0000-01-01).
func DayNumber(dt Date) int { return daysFromCivil(dt.Y, dt.M, dt.D) - epoch0 }

// FromDayNumber is the inverse of DayNumber.
func FromDayNumber(n int) Date {
	z := n + epoch0 + 719468
	var era int
	if z >= 0 {
		era = z / 146097
	} else {
		era = (z - 146096) / 146097
	}
	doe := z - era*146097
	yoe := (doe - doe/1460 + doe/36524 - doe/146096) / 365
	y := yoe + era*400
	doy := doe - (365*yoe + yoe/4 - yoe/100)
	mp := (5*doy + 2) / 153
	d := doy - (153*mp+2)/5 + 1
	m := mp + 3
	if m > 12 {
		m -= 12
	}
	if m <= 2 {
		y++
	}
	return Date{y, m, d}
}

// Weekday returns 1 (Monday) .. 7 (Sunday).
func Weekday(n int) int {
	// 1970-01-01 was a Thursday (4).
	z := n + epoch0
	w := ((z%7)+7+3)%7 + 1
	return w
}

// ISOWeek returns the ISO-8601 week-year and week number of a day.
// The week-year may be -1 (for 0000-01-01/02) or 10000 is never needed
// (9999-12-31 is a Friday and belongs to week 52 of 9999).
func ISOWeek(n int) (year, week int) {
	wd := Weekday(n)
	thursday := n - wd + 4 // the Thursday of this week decides the year
	// year of that Thursday (may be outside the domain by a few days)
	ty := yearOfDay(thursday)
	jan1 := daysFromCivil(ty, 1, 1) - epoch0
	return ty, (thursday-jan1)/7 + 1
}

func yearOfDay(n int) int {
	if n < 0 {
		return -1 // only days -1..-6 can occur
	}
	if n > MaxDay {
		return 10000
	}
	return FromDayNumber(n).Y
}

// WeeksInYear is 52 or 53.
func WeeksInYear(y int) int {
	// A year has 53 weeks iff Jan 1 is a Thursday, or it is a leap year and Jan 1 is a Wednesday.
	jan1 := Weekday(daysFromCivil(y, 1, 1) - epoch0)
	if jan1 == 4 || (IsLeap(y) && jan1 == 3) {
		return 53
	}
	return 52
}

func Quarter(m int) int { return (m-1)/3 + 1 }

// Period bounds as day numbers; week bounds may lie outside [MinDay, MaxDay].
func WeekBounds(n int) (since, until int) {
	wd := Weekday(n)
	return n - wd + 1, n - wd + 7
}

func MonthBounds(y, m int) (since, until int) {
	return DayNumber(Date{y, m, 1}), DayNumber(Date{y, m, MonthLen(y, m)})
}

func QuarterBounds(y, q int) (since, until int) {
	m0 := (q-1)*3 + 1
	return DayNumber(Date{y, m0, 1}), DayNumber(Date{y, m0 + 2, MonthLen(y, m0+2)})
}

func YearBounds(y int) (since, until int) {
	return DayNumber(Date{y, 1, 1}), DayNumber(Date{y, 12, 31})
}

// MondayOfISOWeek returns the day number of the Monday of ISO week (y, w);
// ok is false when that week does not exist.
func MondayOfISOWeek(y, w int) (int, bool) {
	if w < 1 || w > WeeksInYear(y) {
		return 0, false
	}
	jan4 := daysFromCivil(y, 1, 4) - epoch0
	monday1 := jan4 - Weekday(jan4) + 1
	return monday1 + (w-1)*7, true
}

func Clamp(n int) int {
	if n < MinDay {
		return MinDay
	}
	if n > MaxDay {
		return MaxDay
	}
	return n
}
