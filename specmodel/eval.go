package specmodel

// Evaluation rules (Specification.md §III and the documented --now behaviour).

// Total is the sum over all entries (open ranges count zero).
func Total(rs []Record) int {
	t := 0
	for _, r := range rs {
		t += r.Total()
	}
	return t
}

// ShouldSum is the sum of the records' should-totals (absent = 0).
func ShouldSum(rs []Record) int {
	t := 0
	for _, r := range rs {
		if r.HasShould {
			t += r.Should
		}
	}
	return t
}

// CloseAt evaluates the records with every open range closed at the instant (today, nowMins):
// a record dated today is closed at nowMins, a record dated yesterday at nowMins+1440; an open
// range in any other record, or one that starts after the closing time, cannot be closed.
// It returns the closed copy, whether all open ranges could be closed, and whether there was any.
func CloseAt(rs []Record, today int, nowMins int) (out []Record, ok bool, any bool) {
	ok = true
	for _, r := range rs {
		i := r.OpenRange()
		if i < 0 {
			out = append(out, r)
			continue
		}
		any = true
		day := DayNumber(r.Date.Date)
		var end int
		switch day {
		case today:
			end = nowMins
		case today - 1:
			end = nowMins + 1440
		default:
			return nil, false, true
		}
		e := r.Entries[i]
		if end < e.Start.Mins {
			return nil, false, true
		}
		r2 := r
		r2.Entries = append([]Entry{}, r.Entries...)
		r2.Entries[i] = Entry{Kind: KRange, Start: e.Start, End: TimeLit{Mins: end}, Dash: DashSpaced, Summary: e.Summary, Line: e.Line}
		out = append(out, r2)
	}
	return out, ok, any
}
