package specmodel

import (
	"errors"
	"fmt"
	"unicode/utf8"
)

// Strict RFC 8259 parser: the whole input must be exactly one JSON value (surrounded by
// optional JSON whitespace), strings must be valid UTF-8 with only the defined escapes, no
// raw control characters, numbers per the grammar, no duplicate object keys.

type JKind int

const (
	JNull JKind = iota
	JBool
	JNum
	JStr
	JArr
	JObj
)

type JValue struct {
	Kind JKind
	Bool bool
	Num  string // literal text of the number
	Str  string
	Arr  []JValue
	Keys []string // object keys in document order
	Obj  map[string]JValue
}

func (v JValue) Get(k string) (JValue, bool) {
	x, ok := v.Obj[k]
	return x, ok
}

// Int returns the number as an integer (ok=false if it is not an integer literal).
func (v JValue) Int() (int, bool) {
	if v.Kind != JNum {
		return 0, false
	}
	n, neg, i := 0, false, 0
	if i < len(v.Num) && v.Num[i] == '-' {
		neg = true
		i++
	}
	if i >= len(v.Num) {
		return 0, false
	}
	for ; i < len(v.Num); i++ {
		c := v.Num[i]
		if c < '0' || c > '9' {
			return 0, false
		}
		n = n*10 + int(c-'0')
	}
	if neg {
		n = -n
	}
	return n, true
}

type jparser struct {
	s string
	i int
}

func ParseJSON(s string) (JValue, error) {
	if !utf8.ValidString(s) {
		return JValue{}, errors.New("output is not valid UTF-8")
	}
	p := &jparser{s: s}
	p.ws()
	v, err := p.value(0)
	if err != nil {
		return JValue{}, err
	}
	p.ws()
	if p.i != len(p.s) {
		return JValue{}, fmt.Errorf("trailing data at offset %d", p.i)
	}
	return v, nil
}

func (p *jparser) ws() {
	for p.i < len(p.s) && (p.s[p.i] == ' ' || p.s[p.i] == '\t' || p.s[p.i] == '\n' || p.s[p.i] == '\r') {
		p.i++
	}
}

func (p *jparser) lit(w string) bool {
	if len(p.s)-p.i >= len(w) && p.s[p.i:p.i+len(w)] == w {
		p.i += len(w)
		return true
	}
	return false
}

func (p *jparser) value(depth int) (JValue, error) {
	if depth > 200 {
		return JValue{}, errors.New("nesting too deep")
	}
	if p.i >= len(p.s) {
		return JValue{}, errors.New("unexpected end of input")
	}
	switch c := p.s[p.i]; {
	case c == 'n':
		if p.lit("null") {
			return JValue{Kind: JNull}, nil
		}
	case c == 't':
		if p.lit("true") {
			return JValue{Kind: JBool, Bool: true}, nil
		}
	case c == 'f':
		if p.lit("false") {
			return JValue{Kind: JBool}, nil
		}
	case c == '"':
		s, err := p.str()
		return JValue{Kind: JStr, Str: s}, err
	case c == '[':
		p.i++
		v := JValue{Kind: JArr, Arr: []JValue{}}
		p.ws()
		if p.i < len(p.s) && p.s[p.i] == ']' {
			p.i++
			return v, nil
		}
		for {
			p.ws()
			e, err := p.value(depth + 1)
			if err != nil {
				return JValue{}, err
			}
			v.Arr = append(v.Arr, e)
			p.ws()
			if p.i >= len(p.s) {
				return JValue{}, errors.New("unterminated array")
			}
			if p.s[p.i] == ',' {
				p.i++
				continue
			}
			if p.s[p.i] == ']' {
				p.i++
				return v, nil
			}
			return JValue{}, fmt.Errorf("unexpected %q in array at offset %d", p.s[p.i], p.i)
		}
	case c == '{':
		p.i++
		v := JValue{Kind: JObj, Obj: map[string]JValue{}}
		p.ws()
		if p.i < len(p.s) && p.s[p.i] == '}' {
			p.i++
			return v, nil
		}
		for {
			p.ws()
			if p.i >= len(p.s) || p.s[p.i] != '"' {
				return JValue{}, fmt.Errorf("object key expected at offset %d", p.i)
			}
			k, err := p.str()
			if err != nil {
				return JValue{}, err
			}
			if _, dup := v.Obj[k]; dup {
				return JValue{}, fmt.Errorf("duplicate key %q", k)
			}
			p.ws()
			if p.i >= len(p.s) || p.s[p.i] != ':' {
				return JValue{}, fmt.Errorf("':' expected at offset %d", p.i)
			}
			p.i++
			p.ws()
			e, err := p.value(depth + 1)
			if err != nil {
				return JValue{}, err
			}
			v.Obj[k] = e
			v.Keys = append(v.Keys, k)
			p.ws()
			if p.i >= len(p.s) {
				return JValue{}, errors.New("unterminated object")
			}
			if p.s[p.i] == ',' {
				p.i++
				continue
			}
			if p.s[p.i] == '}' {
				p.i++
				return v, nil
			}
			return JValue{}, fmt.Errorf("unexpected %q in object at offset %d", p.s[p.i], p.i)
		}
	case c == '-' || (c >= '0' && c <= '9'):
		start := p.i
		if p.s[p.i] == '-' {
			p.i++
		}
		if p.i >= len(p.s) {
			return JValue{}, errors.New("bad number")
		}
		if p.s[p.i] == '0' {
			p.i++
		} else if p.s[p.i] >= '1' && p.s[p.i] <= '9' {
			for p.i < len(p.s) && p.s[p.i] >= '0' && p.s[p.i] <= '9' {
				p.i++
			}
		} else {
			return JValue{}, errors.New("bad number")
		}
		if p.i < len(p.s) && p.s[p.i] == '.' {
			p.i++
			n := 0
			for p.i < len(p.s) && p.s[p.i] >= '0' && p.s[p.i] <= '9' {
				p.i++
				n++
			}
			if n == 0 {
				return JValue{}, errors.New("bad number fraction")
			}
		}
		if p.i < len(p.s) && (p.s[p.i] == 'e' || p.s[p.i] == 'E') {
			p.i++
			if p.i < len(p.s) && (p.s[p.i] == '+' || p.s[p.i] == '-') {
				p.i++
			}
			n := 0
			for p.i < len(p.s) && p.s[p.i] >= '0' && p.s[p.i] <= '9' {
				p.i++
				n++
			}
			if n == 0 {
				return JValue{}, errors.New("bad number exponent")
			}
		}
		return JValue{Kind: JNum, Num: p.s[start:p.i]}, nil
	}
	return JValue{}, fmt.Errorf("unexpected character %q at offset %d", p.s[p.i], p.i)
}

func hexv(c byte) (int, bool) {
	switch {
	case c >= '0' && c <= '9':
		return int(c - '0'), true
	case c >= 'a' && c <= 'f':
		return int(c-'a') + 10, true
	case c >= 'A' && c <= 'F':
		return int(c-'A') + 10, true
	}
	return 0, false
}

func (p *jparser) hex4() (rune, error) {
	if p.i+4 > len(p.s) {
		return 0, errors.New("truncated \\u escape")
	}
	var r rune
	for k := 0; k < 4; k++ {
		h, ok := hexv(p.s[p.i+k])
		if !ok {
			return 0, errors.New("bad \\u escape")
		}
		r = r*16 + rune(h)
	}
	p.i += 4
	return r, nil
}

func (p *jparser) str() (string, error) {
	p.i++ // opening quote
	var out []byte
	for {
		if p.i >= len(p.s) {
			return "", errors.New("unterminated string")
		}
		c := p.s[p.i]
		switch {
		case c == '"':
			p.i++
			return string(out), nil
		case c < 0x20:
			return "", fmt.Errorf("raw control character 0x%02x in string at offset %d", c, p.i)
		case c == '\\':
			p.i++
			if p.i >= len(p.s) {
				return "", errors.New("truncated escape")
			}
			e := p.s[p.i]
			p.i++
			switch e {
			case '"', '\\', '/':
				out = append(out, e)
			case 'b':
				out = append(out, '\b')
			case 'f':
				out = append(out, '\f')
			case 'n':
				out = append(out, '\n')
			case 'r':
				out = append(out, '\r')
			case 't':
				out = append(out, '\t')
			case 'u':
				r, err := p.hex4()
				if err != nil {
					return "", err
				}
				if r >= 0xD800 && r <= 0xDBFF {
					// high surrogate: a low surrogate escape must follow
					if !(p.i+1 < len(p.s) && p.s[p.i] == '\\' && p.s[p.i+1] == 'u') {
						return "", errors.New("lone high surrogate")
					}
					p.i += 2
					lo, err := p.hex4()
					if err != nil {
						return "", err
					}
					if lo < 0xDC00 || lo > 0xDFFF {
						return "", errors.New("invalid low surrogate")
					}
					r = 0x10000 + (r-0xD800)<<10 + (lo - 0xDC00)
				} else if r >= 0xDC00 && r <= 0xDFFF {
					return "", errors.New("lone low surrogate")
				}
				out = utf8.AppendRune(out, r)
			default:
				return "", fmt.Errorf("invalid escape \\%c", e)
			}
		default:
			out = append(out, c)
			p.i++
		}
	}
}
