package specmodel

import (
	"strings"
	"unicode"
	"unicode/utf8"
)

// Reference parser for the klog file format, written from Specification.md §I–II.
// Line by line, rune by rune. The verdict is one of
//   Valid   – the text conforms; Records is its denotation
//   Invalid – the text breaks a MUST rule; Line is the first physical line (1-based) at which
//             no continuation of the grammar exists, Rule names the rule
//   Unspec  – the text touches a zone where the specification is silent or klog is knowingly
//             lenient (listed in DESIGN.md §3.1); no accept/reject verdict is derived from it

type Verdict int

const (
	Valid Verdict = iota
	Invalid
	Unspec
)

func (v Verdict) String() string { return [...]string{"valid", "invalid", "unspec"}[v] }

type EntryKind int

const (
	KDuration EntryKind = iota
	KRange
	KOpenRange
)

func (k EntryKind) String() string { return [...]string{"duration", "range", "open_range"}[k] }

const (
	DashNone      = 0 // no space on either side
	DashSpaced    = 1 // at least one space on both sides
	DashIrregular = 2 // space on exactly one side
)

type Entry struct {
	Kind        EntryKind
	Dur         DurLit   // KDuration
	Start, End  TimeLit  // KRange (both), KOpenRange (Start)
	Dash        int      // KRange, KOpenRange
	Placeholder int      // KOpenRange: number of '?'
	Summary     []string // first line ("" when absent) followed by the continuation lines
	Line        int      // physical line of the entry (1-based)
}

// Minutes is the entry's contribution to the total (open ranges count 0).
func (e Entry) Minutes() int {
	switch e.Kind {
	case KDuration:
		return e.Dur.Mins
	case KRange:
		return e.End.Mins - e.Start.Mins
	}
	return 0
}

type Record struct {
	Date      DateLit
	HasShould bool
	Should    int // minutes
	Summary   []string
	Entries   []Entry
	Unit      string // indentation unit ("" when the record has no indented line)
	Line      int    // physical line of the headline (1-based)
	LastLine  int    // physical line of the record's last line
}

func (r Record) Total() int {
	t := 0
	for _, e := range r.Entries {
		t += e.Minutes()
	}
	return t
}

func (r Record) OpenRange() int {
	for i, e := range r.Entries {
		if e.Kind == KOpenRange {
			return i
		}
	}
	return -1
}

type Result struct {
	Verdict Verdict
	Records []Record
	Line    int    // Invalid: first offending physical line
	Rule    string // Invalid: broken rule; Unspec: the zone
	NLines  int    // number of physical lines
	// Lenient names a don't-care zone met before the verdict was reached ("" if none). For an
	// Invalid verdict it means klog may legitimately stop conforming (and report) earlier.
	Lenient string
	// ZsBlank: the text contains a line made only of blank characters that is not made only of
	// spaces and tabs (e.g. a lone U+00A0). The specification calls it a blank line.
	ZsBlank bool
}

type PLine struct {
	Text string
	EOL  string // "\n", "\r\n" or "" (last line)
}

// SplitLines splits a text into physical lines: a line ends at LF; a CR directly before
// that LF belongs to the line ending. A text that ends with a line ending has no
// additional empty last line.
func SplitLines(text string) []PLine {
	var out []PLine
	for len(text) > 0 {
		i := strings.IndexByte(text, '\n')
		if i < 0 {
			out = append(out, PLine{text, ""})
			break
		}
		if i > 0 && text[i-1] == '\r' {
			out = append(out, PLine{text[:i-1], "\r\n"})
		} else {
			out = append(out, PLine{text[:i], "\n"})
		}
		text = text[i+1:]
	}
	return out
}

func IsBlankChar(r rune) bool { return r == '\t' || unicode.Is(unicode.Zs, r) }

// IsBlankLine: a line that only contains blank characters (glossary), including the empty line.
func IsBlankLine(s string) bool {
	for _, r := range s {
		if !IsBlankChar(r) {
			return false
		}
	}
	return true
}

// isPlainBlankLine: only spaces and tabs (the blank lines klog recognises, too).
func isPlainBlankLine(s string) bool {
	for i := 0; i < len(s); i++ {
		if s[i] != ' ' && s[i] != '\t' {
			return false
		}
	}
	return true
}

var Units = []string{"    ", "   ", "  ", "\t"}

func isUnit(s string) bool {
	for _, u := range Units {
		if s == u {
			return true
		}
	}
	return false
}

type parser struct {
	unspec  string
	lenient bool
}

// zones in which klog's (lenient) reading is well defined and used by ParseLenient
var lenientZones = map[string]bool{
	"tab after the date":                    true,
	"trailing blanks in the headline":       true,
	"trailing blanks after the entry value": true,
	"tab between entry value and summary":   true,
	"carriage return inside a line":         true,
	"invalid UTF-8":                         true,
}

func (p *parser) markUnspec(zone string) {
	if p.lenient && lenientZones[zone] {
		return
	}
	if p.unspec == "" {
		p.unspec = zone
	}
}

// Parse is the reference parser.
func Parse(text string) Result { return parse(text, false) }

// ParseLenient reads the don't-care zones in which klog is knowingly lenient (tab separators,
// trailing blanks, CR or invalid UTF-8 inside summaries) the way klog documents them, instead of
// returning Unspec. It is used where files WRITTEN BY klog are read back (C03/C04/C05/C11/C17).
func ParseLenient(text string) Result { return parse(text, true) }

func parse(text string, lenient bool) Result {
	lines := SplitLines(text)
	p := &parser{lenient: lenient}
	res := Result{NLines: len(lines)}
	if !utf8.ValidString(text) {
		p.markUnspec("invalid UTF-8")
	}
	for _, l := range lines {
		// A carriage return that is not part of a CR LF newline is an ordinary, non-blank character of the
		// line (glossary: a newline is LF or CR LF; blank characters are tab and Zs): no don't-care zone.
		if !isPlainBlankLine(l.Text) && IsBlankLine(l.Text) {
			// A Zs-only line is a blank line of the specification. It is handled as such below;
			// the zone is remembered so callers can single these texts out.
			res.ZsBlank = true
		}
	}
	var cur *Record
	flush := func() {
		if cur != nil {
			res.Records = append(res.Records, *cur)
			cur = nil
		}
	}
	reject := func(line int, rule string) Result {
		return Result{Verdict: Invalid, Line: line, Rule: rule, NLines: len(lines), Lenient: p.unspec, ZsBlank: res.ZsBlank}
	}
	for i, l := range lines {
		nr := i + 1
		t := l.Text
		if IsBlankLine(t) {
			flush()
			continue
		}
		if cur == nil {
			rec, ok, rule := p.headline(t)
			if !ok {
				return reject(nr, rule)
			}
			rec.Line, rec.LastLine = nr, nr
			cur = &rec
			continue
		}
		cur.LastLine = nr
		first, _ := utf8.DecodeRuneInString(t)
		if !IsBlankChar(first) {
			// not indented: a record summary line, allowed only before the entries
			if cur.Unit != "" {
				return reject(nr, "unindented line after entries")
			}
			cur.Summary = append(cur.Summary, t)
			continue
		}
		// leading run of spaces and tabs
		j := 0
		for j < len(t) && (t[j] == ' ' || t[j] == '\t') {
			j++
		}
		ws := t[:j]
		if cur.Unit == "" {
			if j == 0 {
				return reject(nr, "summary line starts with a blank character")
			}
			if !isUnit(ws) {
				if j == 1 && ws == " " {
					return reject(nr, "summary line starts with a blank character / wrong indentation")
				}
				return reject(nr, "wrong indentation")
			}
			cur.Unit = ws
			e, ok, rule := p.entry(t[j:], cur)
			if !ok {
				return reject(nr, rule)
			}
			e.Line = nr
			cur.Entries = append(cur.Entries, e)
			continue
		}
		u := cur.Unit
		switch {
		case strings.HasPrefix(t, u+u):
			// second level: continuation of the last entry's summary
			last := &cur.Entries[len(cur.Entries)-1]
			last.Summary = append(last.Summary, t[2*len(u):])
		case strings.HasPrefix(t, u) && len(t) > len(u) && t[len(u)] != ' ' && t[len(u)] != '\t':
			e, ok, rule := p.entry(t[len(u):], cur)
			if !ok {
				return reject(nr, rule)
			}
			e.Line = nr
			cur.Entries = append(cur.Entries, e)
		default:
			return reject(nr, "wrong or mixed indentation")
		}
	}
	flush()
	if p.unspec != "" {
		return Result{Verdict: Unspec, Rule: p.unspec, Lenient: p.unspec, NLines: len(lines), Records: res.Records, ZsBlank: res.ZsBlank}
	}
	res.Verdict = Valid
	return res
}

// headline = date [ SP+ "(" duration "!" ")" ]
func (p *parser) headline(t string) (Record, bool, string) {
	first, _ := utf8.DecodeRuneInString(t)
	if IsBlankChar(first) {
		return Record{}, false, "text block does not start with a date (indented or blank-prefixed line)"
	}
	// the date is the run up to the first space or tab
	j := 0
	for j < len(t) && t[j] != ' ' && t[j] != '\t' {
		j++
	}
	d, ok := ParseDate(t[:j])
	if !ok {
		return Record{}, false, "text block does not start with a valid date"
	}
	rec := Record{Date: d}
	rest := t[j:]
	if rest == "" {
		return rec, true, ""
	}
	// blanks after the date
	k := 0
	tab := false
	for k < len(rest) && (rest[k] == ' ' || rest[k] == '\t') {
		if rest[k] == '\t' {
			tab = true
		}
		k++
	}
	if tab {
		p.markUnspec("tab after the date")
	}
	rest = rest[k:]
	if rest == "" {
		p.markUnspec("trailing blanks in the headline")
		return rec, true, ""
	}
	if rest[0] != '(' {
		return Record{}, false, "extra text in the headline"
	}
	end := strings.IndexByte(rest, ')')
	if end < 0 {
		return Record{}, false, "malformed should-total"
	}
	inner := rest[1:end]
	after := rest[end+1:]
	if strings.ContainsAny(inner, " \t") {
		// blanks inside the parentheses: klog tolerates some of them, the spec does not mention them
		stripped := strings.NewReplacer(" ", "", "\t", "").Replace(inner)
		if strings.HasSuffix(stripped, "!") {
			if _, ok := ParseDuration(strings.TrimSuffix(stripped, "!")); ok {
				p.markUnspec("blanks inside the should-total parentheses")
				if isPlainBlankLine(after) {
					return rec, true, ""
				}
			}
		}
		return Record{}, false, "malformed should-total"
	}
	if !strings.HasSuffix(inner, "!") {
		return Record{}, false, "malformed should-total"
	}
	dur, ok := ParseDuration(inner[:len(inner)-1])
	if !ok {
		return Record{}, false, "malformed should-total"
	}
	if dur.Big {
		p.markUnspec("integer beyond 10^9")
	}
	rec.HasShould, rec.Should = true, dur.Mins
	if after != "" {
		if isPlainBlankLine(after) {
			p.markUnspec("trailing blanks in the headline")
			return rec, true, ""
		}
		return Record{}, false, "extra text in the headline"
	}
	return rec, true, ""
}

// entry = value [ SP text ]     (rest is the line without its indentation)
func (p *parser) entry(rest string, rec *Record) (Entry, bool, string) {
	// first token, delimited by space or tab
	j := 0
	for j < len(rest) && rest[j] != ' ' && rest[j] != '\t' {
		j++
	}
	tok := rest[:j]
	var e Entry
	var after string
	if d, ok := ParseDuration(tok); ok {
		if d.Big {
			p.markUnspec("integer beyond 10^9")
		}
		e = Entry{Kind: KDuration, Dur: d}
		after = rest[j:]
	} else {
		// range or open range:  time SP* "-" SP* ( time | "?"+ )
		k := 0
		for k < len(rest) && rest[k] != '-' && rest[k] != ' ' {
			k++
		}
		start, ok := ParseTime(rest[:k])
		if !ok {
			return Entry{}, false, "malformed entry (neither duration nor time)"
		}
		s1 := 0
		for k < len(rest) && rest[k] == ' ' {
			k++
			s1++
		}
		if k >= len(rest) || rest[k] != '-' {
			return Entry{}, false, "malformed range (dash expected)"
		}
		k++
		s2 := 0
		for k < len(rest) && rest[k] == ' ' {
			k++
			s2++
		}
		dash := DashIrregular
		if s1 == 0 && s2 == 0 {
			dash = DashNone
		} else if s1 > 0 && s2 > 0 {
			dash = DashSpaced
		}
		m := k
		for m < len(rest) && rest[m] != ' ' && rest[m] != '\t' {
			m++
		}
		endTok := rest[k:m]
		if endTok == "" {
			return Entry{}, false, "malformed range (end missing)"
		}
		if endTok[0] == '?' {
			for q := 0; q < len(endTok); q++ {
				if endTok[q] != '?' {
					return Entry{}, false, "malformed open range (placeholder)"
				}
			}
			if rec.OpenRange() >= 0 {
				return Entry{}, false, "second open range in a record"
			}
			e = Entry{Kind: KOpenRange, Start: start, Dash: dash, Placeholder: len(endTok)}
		} else {
			end, ok := ParseTime(endTok)
			if !ok {
				return Entry{}, false, "malformed range (end time)"
			}
			if end.Mins < start.Mins {
				return Entry{}, false, "range end before start"
			}
			e = Entry{Kind: KRange, Start: start, End: end, Dash: dash}
		}
		after = rest[m:]
	}
	switch {
	case after == "":
		e.Summary = []string{""}
	case after[0] == ' ':
		// the summary is whatever follows the one separating space (it may be empty or blank)
		e.Summary = []string{after[1:]}
	default: // tab
		p.markUnspec("tab between entry value and summary")
		e.Summary = []string{after[1:]}
	}
	return e, true, ""
}
