package specmodel

import (
	"reflect"
	"testing"
	"time"
)

// Unit tests of the reference model against the examples and rules of Specification.md.
// (The checks additionally cross-check it on every run: calendar vs Go's time package,
// parser vs the generator's by-construction denotation.)

func TestDatesOfTheSpec(t *testing.T) {
	for _, s := range []string{"2020-01-01", "1984-08-30", "2004/12/24", "0000-01-01", "9999-12-31", "2000-02-29", "2024/02/29"} {
		if _, ok := ParseDate(s); !ok {
			t.Errorf("%q must be a date", s)
		}
	}
	for _, s := range []string{"2020-1-01", "20-01-01", "2020-01/01", "2020/01-01", "2020-13-01", "2021-02-29", "1900-02-29", "2020-00-10", "2020-01-32", "2020.01.01", "2020-01-01 ", ""} {
		if _, ok := ParseDate(s); ok {
			t.Errorf("%q must not be a date", s)
		}
	}
	if d, _ := ParseDate("2004/12/24"); !d.Slash || d.String() != "2004/12/24" {
		t.Error("separator notation lost")
	}
}

func TestTimesOfTheSpec(t *testing.T) {
	cases := map[string]int{"14:18": 858, "6:30am": 390, "01:00>": 1500, "<23:00": -60, "24:00": 1440, "<24:00": 0, "0:00": 0, "12:00am": 0, "12:00pm": 720, "12:30am": 30,
		"11:59pm": 1439, "<0:00": -1440, "23:59>": 2879, "1:30>": 1530, "08:05": 485}
	for s, want := range cases {
		got, ok := ParseTime(s)
		if !ok || got.Mins != want {
			t.Errorf("%q: got %v %v, want %d", s, got, ok, want)
		}
	}
	for _, s := range []string{"24:00>", "24:01", "25:00", "8:60", "8:5", "13:00pm", "0:30am", "<8:00>", "8:00 ", "8", "8:00AM", "<23:00am>", "<23:00am"} {
		if _, ok := ParseTime(s); ok {
			t.Errorf("%q must not be a time (the 12-hour clock has hours 1-12)", s)
		}
	}
	// canonical spelling
	for _, c := range []struct {
		mins   int
		twelve bool
		want   string
	}{{1440, false, "0:00>"}, {0, true, "12:00am"}, {720, true, "12:00pm"}, {-60, false, "<23:00"}, {1500, true, "1:00am>"}, {485, false, "8:05"}, {780, true, "1:00pm"}} {
		if got := (TimeLit{Mins: c.mins, TwelveH: c.twelve}).String(); got != c.want {
			t.Errorf("canonical %d/%v = %q, want %q", c.mins, c.twelve, got, c.want)
		}
	}
	// every representable time round-trips through its canonical spelling
	for mins := -1440; mins < 2880; mins++ {
		for _, tw := range []bool{false, true} {
			x := TimeLit{Mins: mins, TwelveH: tw}
			if y, ok := ParseTime(x.String()); !ok || y != x {
				t.Fatalf("round trip of %v via %q gives %v", x, x.String(), y)
			}
		}
	}
}

func TestDurationsOfTheSpec(t *testing.T) {
	cases := map[string]int{"1h": 60, "5m": 5, "4h12m": 252, "-8h30m": -510, "0h": 0, "50h": 3000, "119m": 119, "1h59m": 119, "+4h12m": 252, "0m": 0, "-0m": 0, "00m": 0}
	for s, want := range cases {
		got, ok := ParseDuration(s)
		if !ok || got.Mins != want {
			t.Errorf("%q: got %v %v, want %d", s, got, ok, want)
		}
	}
	for _, s := range []string{"1h60m", "1m1h", "h", "m", "", "1", "1h1", "1.5h", "--1h", "1h 1m", "1H"} {
		if _, ok := ParseDuration(s); ok {
			t.Errorf("%q must not be a duration", s)
		}
	}
	if CanonicalDuration(90) != "1h30m" || CanonicalDuration(-5) != "-5m" || CanonicalDuration(0) != "0m" || CanonicalDuration(120) != "2h" {
		t.Error("canonical duration")
	}
}

func TestTagsOfTheSpec(t *testing.T) {
	got := ScanTags(`#gym #home-office #読む #ticket=891 #project="22/48.3" #Office day (#coding, #meetings) #tag= #tag="" #call="Liz Jones" #x='a"b' #u="open`)
	want := []Tag{{"gym", ""}, {"home-office", ""}, {"読む", ""}, {"ticket", "891"}, {"project", "22/48.3"}, {"office", ""}, {"coding", ""}, {"meetings", ""}, {"tag", ""}, {"tag", ""},
		{"call", "Liz Jones"}, {"x", `a"b`}, {"u", ""}}
	if !reflect.DeepEqual(got, want) {
		t.Errorf("tags:\n got %v\nwant %v", got, want)
	}
	if !Matches(got, Tag{"ticket", ""}) || !Matches(got, Tag{"ticket", "891"}) || Matches(got, Tag{"ticket", "892"}) || Matches(got, Tag{"nope", ""}) {
		t.Error("matching")
	}
	if (Tag{"project", "22/48.3"}).Canonical() != `#project="22/48.3"` || (Tag{"x", `a"b`}).Canonical() != `#x='a"b'` || (Tag{"t", "v-1"}).Canonical() != "#t=v-1" {
		t.Error("canonical tag spelling")
	}
}

func TestRecordsOfTheSpec(t *testing.T) {
	doc := "2018-03-24 (8h!)\nFirst day at my new job\n    8:30 - 17:00\n    -45m Lunch break\n\n2018-03-25\n\t8:15 - 11:45\n\t11:00am - 1:00pm Call\n\t<23:40 - 3:12\n\t0:30> - 4:00>\n\t2h30m\n\t\tmulti\n\t\t  line\n\t05:17 - ?\n"
	r := Parse(doc)
	if r.Verdict != Valid || len(r.Records) != 2 {
		t.Fatalf("verdict %v (%s line %d)", r.Verdict, r.Rule, r.Line)
	}
	if r.Records[0].Total() != 510-45 || !r.Records[0].HasShould || r.Records[0].Should != 480 || r.Records[0].Summary[0] != "First day at my new job" {
		t.Errorf("record 0: %+v", r.Records[0])
	}
	r1 := r.Records[1]
	if r1.Unit != "\t" || len(r1.Entries) != 6 || r1.Entries[2].Minutes() != 212 || r1.Entries[3].Minutes() != 210 || r1.Entries[1].Minutes() != 120 ||
		!reflect.DeepEqual(r1.Entries[4].Summary, []string{"", "multi", "  line"}) || r1.Entries[5].Kind != KOpenRange || r1.OpenRange() != 5 {
		t.Errorf("record 1: %+v", r1)
	}
	// overlapping ranges count fully; shifted ranges count towards their own record
	if Total(Parse("2020-01-01\n    12:00 - 13:00\n    12:30 - 13:30\n").Records) != 120 {
		t.Error("overlap")
	}
	for doc, line := range map[string]int{
		"2020-01-01\n    1h\n\n    2h\n":            4, // blank line inside a record
		"2020-01-01\n     1h\n":                      2, // five spaces
		"2020-01-01\n    1h\n\t2h\n":                 3, // mixed indentation
		"2020-01-01\n    8:00 - ?\n    9:00 - ?\n":   3, // second open range
		"2020-01-01\n    9:00 - 8:00\n":              2, // reversed
		"2020-01-01\n    8:00 - ?>\n":                2, // shifted placeholder
		"2020-01-01 foo\n":                           1, // extra text
		"2020-01-01(8h!)\n":                          1, // no space
		"2020-01-01\n summary\n":                2, // summary starts with a blank character
		"hello\n":                                    1, // stray text
		"2020-01-01\n    1h\nlate summary\n":         3,
		"2020-02-30\n":                               1,
		"2020-01-01\n    1h\n        c\n         \n": 0, // trailing whitespace-only line: a blank line, valid
	} {
		got := Parse(doc)
		if line == 0 {
			if got.Verdict != Valid {
				t.Errorf("%q must be valid, got %v (%s)", doc, got.Verdict, got.Rule)
			}
			continue
		}
		if got.Verdict != Invalid || got.Line != line {
			t.Errorf("%q: verdict %v line %d (%s), want invalid at line %d", doc, got.Verdict, got.Line, got.Rule, line)
		}
	}
	// a Zs-only line is a blank line of the specification
	if z := Parse("2020-01-01\n \n2020-01-02\n"); z.Verdict != Valid || len(z.Records) != 2 || !z.ZsBlank {
		t.Errorf("zs blank line: %+v", z)
	}
	// a carriage return that does not belong to a CR LF newline is an ordinary non-blank character
	for doc, want := range map[string]Verdict{
		"2020-01-01\n    1h a\rb\n": Valid, "2020-01-01\r\r\n    1h\n": Invalid, "2020-01-01\n    1h\r": Invalid, "2020-01-01\n    1h\rfoo\n": Invalid,
		"2020-01-01\nnote\r\r\n    1h\n": Valid, "2020-01-01\n\r\r\n2020-01-02\n": Valid, "2020-01-01\n    1h\n\r\r\n2020-01-02\n": Invalid, "2020-01-01\n    1h x\n        \r\r\n": Valid,
		"2020-01-01 \r\r\n": Invalid, "\r2020-01-01\n": Invalid, "2020-01-01\n    8:00 -\r9:00\n": Invalid,
	} {
		if got := Parse(doc); got.Verdict != want {
			t.Errorf("%q: verdict %v (%s), want %v", doc, got.Verdict, got.Rule, want)
		}
	}
	// don't-care zones
	for _, doc := range []string{"2020-01-01\t(8h!)\n", "2020-01-01\n    1h\tx\n", "2020-01-01 ( 8h! )\n", "2020-01-01\n    1h \xff\n", "2020-01-01\n    99999999999h\n"} {
		if got := Parse(doc); got.Verdict != Unspec {
			t.Errorf("%q should be a don't-care, got %v", doc, got.Verdict)
		}
	}
}

func TestCalendarAgainstGo(t *testing.T) {
	n := 0
	for tm := time.Date(0, 1, 1, 12, 0, 0, 0, time.UTC); tm.Year() < 10000; tm = tm.AddDate(0, 0, 1) {
		d := FromDayNumber(n)
		iy, iw := tm.ISOWeek()
		sy, sw := ISOWeek(n)
		wd := int(tm.Weekday())
		if wd == 0 {
			wd = 7
		}
		if d.Y != tm.Year() || d.M != int(tm.Month()) || d.D != tm.Day() || Weekday(n) != wd || iy != sy || iw != sw || DayNumber(d) != n {
			t.Fatalf("day %d: %v vs %v", n, d, tm)
		}
		n++
	}
	if n != MaxDay+1 {
		t.Fatalf("%d days", n)
	}
	if WeeksInYear(2020) != 53 || WeeksInYear(2021) != 52 || WeeksInYear(2015) != 53 || WeeksInYear(9999) != 52 {
		t.Error("weeks in year")
	}
}

func TestStrictJSON(t *testing.T) {
	for _, s := range []string{`{"a":[1,-2.5e3,"xé😀",true,null],"b":{}}`, ` [ ] `, `" "`} {
		if _, err := ParseJSON(s); err != nil {
			t.Errorf("%s: %v", s, err)
		}
	}
	for _, s := range []string{`{"a":1,}`, `{"a":1,"a":2}`, `[1] x`, "\"a\x01b\"", `"\ud800"`, `"\x"`, `01`, `{"a"}`, "\"\xff\"", `nul`, ``} {
		if _, err := ParseJSON(s); err == nil {
			t.Errorf("%q must be rejected", s)
		}
	}
}
