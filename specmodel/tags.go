package specmodel

import (
	"unicode"
)

// Tags of the specification (§I Tag), scanned rune by rune.

type Tag struct {
	Name  string // lower-cased
	Value string // "" = absent
}

func isTagChar(r rune) bool {
	return unicode.IsLetter(r) || (r >= '0' && r <= '9') || r == '_' || r == '-'
}

func lowerRunes(rs []rune) string {
	out := make([]rune, len(rs))
	for i, r := range rs {
		out[i] = unicode.ToLower(r)
	}
	return string(out)
}

// ScanTags returns the tags of one summary line, in order of appearance.
func ScanTags(line string) []Tag {
	rs := []rune(line)
	var out []Tag
	i := 0
	for i < len(rs) {
		if rs[i] != '#' {
			i++
			continue
		}
		j := i + 1
		for j < len(rs) && isTagChar(rs[j]) {
			j++
		}
		if j == i+1 {
			i++
			continue
		}
		t := Tag{Name: lowerRunes(rs[i+1 : j])}
		i = j
		if j < len(rs) && rs[j] == '=' {
			k := j + 1
			i = k
			if k < len(rs) && (rs[k] == '"' || rs[k] == '\'') {
				q := rs[k]
				m := k + 1
				for m < len(rs) && rs[m] != q {
					m++
				}
				if m < len(rs) {
					t.Value = string(rs[k+1 : m])
					i = m + 1
				}
				// no closing quote on this line: the value is absent, the rest is ordinary text
			} else {
				m := k
				for m < len(rs) && isTagChar(rs[m]) {
					m++
				}
				t.Value = string(rs[k:m])
				i = m
			}
		}
		out = append(out, t)
	}
	return out
}

// ScanSummaryTags scans all lines of a summary.
func ScanSummaryTags(lines []string) []Tag {
	var out []Tag
	for _, l := range lines {
		out = append(out, ScanTags(l)...)
	}
	return out
}

// Canonical writes a tag the way klog re-serialises it: the value is quoted only when needed,
// with double quotes unless it contains one.
func (t Tag) Canonical() string {
	s := "#" + t.Name
	if t.Value == "" {
		return s
	}
	plain := true
	for _, r := range t.Value {
		if !isTagChar(r) {
			plain = false
		}
	}
	if plain {
		return s + "=" + t.Value
	}
	q := "\""
	for _, r := range t.Value {
		if r == '"' {
			q = "'"
		}
	}
	return s + "=" + q + t.Value + q
}

// Matches: does a set of tags satisfy the query tag? A tag with value also matches its bare
// name; names are compared case-insensitively (both are lower-cased), values literally.
func Matches(have []Tag, q Tag) bool {
	for _, t := range have {
		if t.Name != q.Name {
			continue
		}
		if q.Value == "" || q.Value == t.Value {
			return true
		}
	}
	return false
}
