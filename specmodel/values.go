package specmodel

// Value literals of the specification (§I Date, Time, Range, Open range, Duration),
// recognised character by character. No regular expressions.

func isDigit(c byte) bool { return c >= '0' && c <= '9' }

// ---- dates ----

type DateLit struct {
	Date
	Slash bool // written with '/'
}

// ParseDate recognises DDDDsDDsDD with s ∈ {-,/} (the same twice) and a Gregorian-valid value.
func ParseDate(s string) (DateLit, bool) {
	if len(s) != 10 {
		return DateLit{}, false
	}
	for i := 0; i < 10; i++ {
		if i == 4 || i == 7 {
			continue
		}
		if !isDigit(s[i]) {
			return DateLit{}, false
		}
	}
	if (s[4] != '-' && s[4] != '/') || s[7] != s[4] {
		return DateLit{}, false
	}
	y := int(s[0]-'0')*1000 + int(s[1]-'0')*100 + int(s[2]-'0')*10 + int(s[3]-'0')
	m := int(s[5]-'0')*10 + int(s[6]-'0')
	d := int(s[8]-'0')*10 + int(s[9]-'0')
	if !ValidDate(y, m, d) {
		return DateLit{}, false
	}
	return DateLit{Date{y, m, d}, s[4] == '/'}, true
}

func (d DateLit) String() string {
	sep := byte('-')
	if d.Slash {
		sep = '/'
	}
	b := []byte{
		byte('0' + d.Y/1000), byte('0' + d.Y/100%10), byte('0' + d.Y/10%10), byte('0' + d.Y%10), sep,
		byte('0' + d.M/10), byte('0' + d.M%10), sep,
		byte('0' + d.D/10), byte('0' + d.D%10),
	}
	return string(b)
}

// ---- times ----

// TimeLit is the denotation of a time literal: minutes relative to the midnight
// that starts the record's date (−1440 … 2879), plus the notation (12-hour clock).
type TimeLit struct {
	Mins    int  // relative to the record date's 0:00
	TwelveH bool // written with am/pm
}

// Shift returns -1, 0 or +1: the day the time lies on relative to the record's date.
func (t TimeLit) Shift() int {
	switch {
	case t.Mins < 0:
		return -1
	case t.Mins >= 1440:
		return 1
	}
	return 0
}
func (t TimeLit) Hour() int   { return ((t.Mins % 1440) + 1440) % 1440 / 60 }
func (t TimeLit) Minute() int { return ((t.Mins % 1440) + 1440) % 1440 % 60 }

// ParseTime recognises  ["<"] D[D] ":" DD ["am"|"pm"] [">"]  with the value rules of the spec.
func ParseTime(s string) (TimeLit, bool) {
	i := 0
	shift := 0
	if i < len(s) && s[i] == '<' {
		shift = -1
		i++
	}
	// hour: one or two digits
	h, nd := 0, 0
	for i < len(s) && isDigit(s[i]) && nd < 2 {
		h = h*10 + int(s[i]-'0')
		i++
		nd++
	}
	if nd == 0 {
		return TimeLit{}, false
	}
	if i >= len(s) || s[i] != ':' {
		return TimeLit{}, false
	}
	i++
	if i+2 > len(s) || !isDigit(s[i]) || !isDigit(s[i+1]) {
		return TimeLit{}, false
	}
	m := int(s[i]-'0')*10 + int(s[i+1]-'0')
	i += 2
	twelve := false
	pm := false
	if i+2 <= len(s) && (s[i] == 'a' || s[i] == 'p') && s[i+1] == 'm' {
		twelve = true
		pm = s[i] == 'p'
		i += 2
	}
	if i < len(s) && s[i] == '>' {
		if shift != 0 {
			return TimeLit{}, false // not both shifts
		}
		shift = 1
		i++
	}
	if i != len(s) {
		return TimeLit{}, false
	}
	if m > 59 {
		return TimeLit{}, false
	}
	if twelve {
		if h < 1 || h > 12 {
			return TimeLit{}, false
		}
		if h == 12 {
			h = 0
		}
		if pm {
			h += 12
		}
	} else {
		if h > 24 {
			return TimeLit{}, false
		}
		if h == 24 {
			if m != 0 {
				return TimeLit{}, false
			}
			if shift == 1 {
				return TimeLit{}, false // `24:00>` MUST NOT appear
			}
		}
	}
	return TimeLit{Mins: shift*1440 + h*60 + m, TwelveH: twelve}, true
}

// String writes the canonical literal for the value in its notation.
func (t TimeLit) String() string {
	h, m := t.Hour(), t.Minute()
	pre, suf := "", ""
	if t.Shift() < 0 {
		pre = "<"
	} else if t.Shift() > 0 {
		suf = ">"
	}
	ampm := ""
	if t.TwelveH {
		switch {
		case h == 0:
			h, ampm = 12, "am"
		case h < 12:
			ampm = "am"
		case h == 12:
			ampm = "pm"
		default:
			h, ampm = h-12, "pm"
		}
	}
	return pre + itoa(h) + ":" + string([]byte{byte('0' + m/10), byte('0' + m%10)}) + ampm + suf
}

func itoa(n int) string {
	if n == 0 {
		return "0"
	}
	neg := n < 0
	if neg {
		n = -n
	}
	var b [24]byte
	i := len(b)
	for n > 0 {
		i--
		b[i] = byte('0' + n%10)
		n /= 10
	}
	if neg {
		i--
		b[i] = '-'
	}
	return string(b[i:])
}

// ---- durations ----

// DurLit is the denotation of a duration literal.
type DurLit struct {
	Mins int
	Plus bool // written with an explicit '+'
	// ZeroSign: for a zero value, the sign it was written with (-1, 0, +1).
	ZeroSign int
	// Big is set when a number in the literal exceeds 10^9 (implementation limit: don't-care).
	Big bool
}

// ParseDuration recognises  ["+"|"-"] ( N "h" [ M "m" ] | M "m" )  with M<60 when the hour part is present.
func ParseDuration(s string) (DurLit, bool) {
	i := 0
	sign := 1
	plus := false
	signed := false
	if i < len(s) && (s[i] == '+' || s[i] == '-') {
		if s[i] == '-' {
			sign = -1
		} else {
			plus = true
		}
		signed = true
		i++
	}
	readInt := func() (int, bool, bool) {
		start := i
		n := 0
		big := false
		for i < len(s) && isDigit(s[i]) {
			if n > 1000000000 {
				big = true
			} else {
				n = n*10 + int(s[i]-'0')
			}
			i++
		}
		if n > 1000000000 {
			big = true
		}
		return n, i > start, big
	}
	n1, ok1, big1 := readInt()
	if !ok1 || i >= len(s) {
		return DurLit{}, false
	}
	var h, m int
	hasH := false
	big := big1
	switch s[i] {
	case 'h':
		hasH = true
		h = n1
		i++
		if i < len(s) {
			n2, ok2, big2 := readInt()
			if !ok2 || i >= len(s) || s[i] != 'm' {
				return DurLit{}, false
			}
			i++
			m = n2
			big = big || big2
			if !big2 && m > 59 {
				return DurLit{}, false
			}
			if big2 {
				return DurLit{}, false // certainly > 59
			}
		}
	case 'm':
		m = n1
		i++
	default:
		return DurLit{}, false
	}
	if i != len(s) {
		return DurLit{}, false
	}
	_ = hasH
	if big {
		return DurLit{Big: true}, true
	}
	d := DurLit{Mins: sign * (h*60 + m), Plus: plus}
	if d.Mins == 0 && signed {
		d.ZeroSign = sign
	}
	return d, true
}

// Canonical writes minutes as the canonical duration literal (e.g. 90 -> 1h30m, 0 -> 0m).
func CanonicalDuration(mins int) string {
	if mins == 0 {
		return "0m"
	}
	s := ""
	a := mins
	if a < 0 {
		s = "-"
		a = -a
	}
	if a/60 > 0 {
		s += itoa(a/60) + "h"
	}
	if a%60 > 0 {
		s += itoa(a%60) + "m"
	}
	return s
}
