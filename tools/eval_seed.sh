#!/bin/bash
# tools/eval_seed.sh <seed-dir> <name> <check-id>...
#   1. in a scratch worktree: the patch applies, the project's tests pass with it, the demonstration
#      fails with it and passes without it;
#   2. runs the given checks (quick) against /repo with the patch applied (and reverts);
#   3. stores the seed under /verif/seeded/<name>/ with the outcome.
set -u
seed=$(readlink -f "$1"); name=$2; shift 2
export GOFLAGS=-mod=mod GOPROXY=off GOSUMDB=off GOTOOLCHAIN=local
wt=/tmp/evalwt.$$
git -C /repo worktree add -q "$wt" HEAD || exit 3
cleanup() { git -C /repo worktree remove --force "$wt" 2>/dev/null; }
trap cleanup EXIT
cd "$wt"
if ! git apply --check "$seed/patch.diff" 2>/dev/null; then echo "SEED $name: patch does not apply"; exit 3; fi
demo=$(ls "$seed"/demo_test.go 2>/dev/null)
run_demo() {
  if [ -n "$demo" ]; then
    dir=$(grep -o -m1 'klog[a-z/]*/' "$demo" | head -1); dir=${dir%/}
    [ -z "$dir" ] && dir=klog
    cp "$demo" "$dir/zz_demo_seed_test.go"
    go1.26 test -count=1 ./$dir/ >/tmp/evalwt.$$.log 2>&1; rc=$?
    rm -f "$dir/zz_demo_seed_test.go"
    return $rc
  elif [ -f "$seed/demo.sh" ]; then
    (cd "$wt" && WT="$wt" bash "$seed/demo.sh" >/tmp/evalwt.$$.log 2>&1); return $?
  fi
  return 99
}
run_demo; base=$?
git apply "$seed/patch.diff"
go1.26 build ./... >/dev/null 2>&1 || { echo "SEED $name: does not compile"; exit 3; }
fails=$(go1.26 test -count=1 ./... 2>&1 | grep -c "^FAIL\|^--- FAIL")
run_demo; mut=$?
git checkout -q -- . ; git clean -fdq
echo "SEED $name: own-tests-failing=$fails demo-without-patch=$base demo-with-patch=$mut"
ok=1
[ "$fails" != "0" ] && ok=0
[ "$base" != "0" ] && ok=0
[ "$mut" = "0" ] && ok=0
cd /verif
results=""
if [ $ok = 1 ] && [ $# -gt 0 ]; then
  results=$(SKIP_TESTS=1 tools/mutant.sh "$seed/patch.diff" "$@")
  echo "$results"
fi
mkdir -p /verif/seeded/$name
cp "$seed/patch.diff" /verif/seeded/$name/
[ -n "$demo" ] && cp "$demo" /verif/seeded/$name/demo_test.go.txt
[ -f "$seed/demo.sh" ] && cp "$seed/demo.sh" /verif/seeded/$name/
python3 - "$seed/meta.json" "/verif/seeded/$name/meta.json" "$fails" "$base" "$mut" "$ok" "$results" <<'PY'
import json,sys
src,dst,fails,base,mut,ok,results=sys.argv[1:8]
try: m=json.load(open(src))
except Exception as e: m={"meta_unreadable":str(e)}
m["confirmed_by_me"]={"own_tests_failing_with_patch":int(fails),"demo_exit_without_patch":int(base),"demo_exit_with_patch":int(mut),"valid_seed":ok=="1",
  "ran":"tools/eval_seed.sh (scratch worktree: git apply, go1.26 test ./..., demo with and without the patch; then tools/mutant.sh on /repo)"}
m["checks"]=[l for l in results.splitlines() if l.strip()]
json.dump(m,open(dst,"w"),indent=1,ensure_ascii=False)
PY
rm -f /tmp/evalwt.$$.log
