#!/usr/bin/env python3
"""tools/gen_seed_prompts.py <round-tag> <outdir>
Writes one prompt file per property for a round of sub-agent seeds (see DESIGN.md §5). The agents get ONLY the property
text, their own scratch worktree (/tmp/wt-<ID><tag>, to be created with `git -C /repo worktree add --detach`) and the
one-line summaries of the ideas already used for that property (from /verif/seeded/*/meta.json) - nothing else from /verif.
"""
import json, glob, sys
tag, outdir = sys.argv[1], sys.argv[2]
props = {json.loads(l)['id']: json.loads(l) for l in open('/verif/properties.jsonl')}
used = {}
for f in sorted(glob.glob('/verif/seeded/*/meta.json')):
    pid = f.split('/')[-2].split('-')[0]
    used.setdefault(pid, []).append(str(json.load(open(f)).get('summary', ''))[:200].replace('\n', ' '))
T = '''You are helping to evaluate a verification tool for the Go project jotaen/klog (a CLI time tracker with its own plain-text file format; the format specification is Specification.md in the repository). Your job: write TWO realistic, subtle, DIFFERENT source changes ("A" and "B") to klog that each BREAK the following semantic property while the project still compiles and its complete existing test suite still passes.

PROPERTY {pid} - {title}
{statement}

Rules
- Work ONLY in your own scratch git worktree: {wt} (a checkout of the pinned commit). Never modify, read from or write to /repo or /verif. NEVER use `git stash` (stashes are shared between worktrees and would disturb other people). Use `git diff`, `git apply`, `git apply -R`, `git checkout -- .` instead.
- Environment (no network): `export GOFLAGS=-mod=mod GOPROXY=off GOSUMDB=off GOTOOLCHAIN=local` in every shell call; the Go command is `go1.26`. Run the suite with `go1.26 test -count=1 ./...` (takes about a minute).
- Each change touches only non-test files under klog/ (do not edit tests, go.mod, or files with the build tag `verif`), is small (a few lines; a plausible refactoring slip, wrong boundary, stale variable, cache, shortcut, wrong helper, off-by-one, swapped operands, forgotten case...), looks like something a maintainer could write by mistake, and must NOT be caught by the existing tests.
- Each change must need something SPECIFIC to manifest, i.e. most everyday uses still work. It must however be a real, unambiguous violation of the property AS STATED (quote to yourself the clause it breaks), observable through klog's own public behaviour (CLI output, exit status, file contents, exported API results) - not just an internal difference, and not something the property leaves open.
- A and B must differ from each other in site and kind, and must differ from ALL of these ideas that were used already for this property. Think about which part of the behaviour behind the property has NOT been attacked yet - another command or flag the property covers, another code path that reaches the same result (several CPUs, several input files, bookmarks, stdin, configuration preferences, environment variables), state carried between the steps or refreshes of one command, ordering or aliasing inside data structures, numeric and calendar boundaries, unusual but valid file layouts, interactions between two flags:
{used}
- For each change provide a demonstration: a Go test file `demo_test.go` (package of the directory it is to be copied into; say in a header comment into WHICH directory under klog/ it must be copied, e.g. `// copy into klog/app/cli/`) that FAILS with the change applied and PASSES on the unmodified code. Use only the repository's own packages and the standard library.
- Verify yourself, for each change: (1) with the change applied `go1.26 build ./...` and the full suite pass; (2) the demo fails with the change and passes after `git apply -R`; (3) the patch applies to a clean checkout with `git apply --check`.

Deliverables (create the directories):
  {out}/A/patch.diff   (output of `git diff` for change A only)
  {out}/A/demo_test.go
  {out}/A/meta.json    {{"property": "{pid}", "summary": "<file, function, what was changed and the mistaken assumption>", "needs": "<what specific input/flags/clock/sequence makes it manifest>", "demo": "<directory and command to run the demo>", "tests_pass": true}}
  and the same under {out}/B/.
Leave the worktree clean (`git checkout -- .`, remove the demo files) when you are done. In your final answer summarise both changes in a few lines each.
'''
for pid, p in props.items():
    u = '\n'.join('    * ' + x for x in used.get(pid, [])) or '    (none)'
    open(f'{outdir}/prompt-{pid}.txt', 'w').write(T.format(pid=pid, title=p['title'], statement=p['statement'], wt=f'/tmp/wt-{pid}{tag}', out=f'/tmp/seed-{pid}{tag}', used=u))
print(len(props), "prompts in", outdir)
