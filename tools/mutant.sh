#!/bin/bash
# tools/mutant.sh <patch.diff> <check-id>...   applies a property-breaking patch, confirms the repository's own
# tests still pass, runs the given checks (quick) and reverts. Prints one line per check.
# Default: the patch is applied to /repo itself (git apply … run … git checkout -- .).
# MUT_SNAP=1: the checks run from a snapshot of /verif's committed HEAD (under /tmp, removed afterwards).
# MUT_WT=1: the patch is applied to a scratch worktree of /repo under /tmp and the checks are pointed at it with
# KV_REPO, so that /repo stays untouched (needed while something else, e.g. a thorough run, builds from /repo).
set -u
patch=$(readlink -f "$1"); shift
export GOFLAGS=-mod=mod GOPROXY=off GOSUMDB=off GOTOOLCHAIN=local
if [ "${MUT_WT:-}" != "" ]; then
  tree=/tmp/mut-wt-$$
  git -C /repo worktree add -q --detach "$tree" HEAD || exit 3
  trap 'git -C /repo worktree remove --force "$tree" 2>/dev/null; git -C /repo worktree prune' EXIT
  export KV_REPO=$tree
else
  tree=/repo
  if ! git -C /repo diff --quiet; then echo "REFUSING: /repo has uncommitted changes"; exit 3; fi
  trap 'cd /repo && git checkout -- . && git clean -fdq klog' EXIT
fi
cd "$tree"
if ! git apply --check "$patch" 2>/dev/null; then echo "PATCH-DOES-NOT-APPLY $patch"; exit 3; fi
git apply "$patch"
if [ "${SKIP_TESTS:-}" = "" ]; then
  if ! go1.26 build ./... >/dev/null 2>&1; then echo "MUTANT-DOES-NOT-COMPILE"; exit 3; fi
  t=$(go1.26 test -count=1 ./... 2>&1 | grep -c "^FAIL\|^--- FAIL")
  if [ "$t" != "0" ]; then echo "MUTANT-FAILS-OWN-TESTS ($t)"; [ "${FORCE:-}" = "" ] && exit 4; fi
fi
vdir=/verif
if [ "${MUT_SNAP:-}" != "" ]; then
  # run the COMMITTED machinery (a snapshot of /verif's HEAD under /tmp), so that edits in progress in /verif and
  # this evaluation do not disturb each other; the snapshot is removed afterwards
  vdir=/tmp/verif-snap-$$
  mkdir -p "$vdir" && git -C /verif archive ${MUT_SNAP_REV:-HEAD} | tar -x -C "$vdir"
  trap 'rm -rf "$vdir"; [ -n "${KV_REPO:-}" ] && { git -C /repo worktree remove --force "$tree" 2>/dev/null; git -C /repo worktree prune; } || { cd /repo && git checkout -- . && git clean -fdq klog; }' EXIT
fi
cd "$vdir"
for id in "$@"; do
  out=$(KV_BUDGET_S=${KV_BUDGET_S:-240} ./check "$id" quick 2>&1)
  rc=$?
  v=$(echo "$out" | grep -c "^VIOLATION")
  sig=$(echo "$out" | grep -m3 "^  sig=" | tr '\n' ' ')
  echo "$(basename "$patch") $id exit=$rc violations=$v $sig"
done
