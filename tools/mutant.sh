#!/bin/bash
# tools/mutant.sh <patch.diff> <check-id>...   applies a property-breaking patch to /repo, confirms the
# repository's own tests still pass, runs the given checks (quick) and reverts. Prints one line per check.
set -u
patch=$(readlink -f "$1"); shift
cd /repo
if ! git diff --quiet; then echo "REFUSING: /repo has uncommitted changes"; exit 3; fi
if ! git apply --check "$patch" 2>/dev/null; then echo "PATCH-DOES-NOT-APPLY $patch"; exit 3; fi
git apply "$patch"
trap 'cd /repo && git checkout -- . && git clean -fdq klog' EXIT
export GOFLAGS=-mod=mod GOPROXY=off GOSUMDB=off GOTOOLCHAIN=local
if [ "${SKIP_TESTS:-}" = "" ]; then
  if ! go1.26 build ./... >/dev/null 2>&1; then echo "MUTANT-DOES-NOT-COMPILE"; exit 3; fi
  t=$(go1.26 test -count=1 ./... 2>&1 | grep -c "^FAIL\|^--- FAIL")
  if [ "$t" != "0" ]; then echo "MUTANT-FAILS-OWN-TESTS ($t)"; [ "${FORCE:-}" = "" ] && exit 4; fi
fi
cd /verif
for id in "$@"; do
  out=$(KV_BUDGET_S=${KV_BUDGET_S:-240} ./check "$id" quick 2>&1)
  rc=$?
  v=$(echo "$out" | grep -c "^VIOLATION")
  sig=$(echo "$out" | grep -m3 "^  sig=" | tr '\n' ' ')
  echo "$(basename "$patch") $id exit=$rc violations=$v $sig"
done
