#!/bin/bash
# tools/regress_seeds.sh [name...]   re-runs, for every kept seed, the check(s) that must detect it (quick tier).
# Prints one line per seed; exit 1 if any seed is no longer detected.
cd /verif
fail=0
names=("$@"); [ ${#names[@]} -eq 0 ] && names=($(ls seeded))
for n in "${names[@]}"; do
  id=${n%%-*}
  out=$(SKIP_TESTS=1 tools/mutant.sh seeded/$n/patch.diff $id 2>&1 | tail -1)
  if echo "$out" | grep -q "exit=1"; then echo "DETECTED $n :: $out"; else echo "MISSED   $n :: $out"; fail=1; fi
done
exit $fail
