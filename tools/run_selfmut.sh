#!/bin/bash
# tools/run_selfmut.sh [patch...]  runs every own deliberate mutant in /verif/selftest/*.diff against the check of
# the property it is named after (quick tier) and appends one line per mutant to selftest/RESULTS.txt.
cd /verif
export GOFLAGS=-mod=mod GOPROXY=off GOSUMDB=off GOTOOLCHAIN=local
patches=("$@"); [ ${#patches[@]} -eq 0 ] && patches=(selftest/c*.diff)
for p in "${patches[@]}"; do
  n=$(basename "$p" .diff); id=$(echo "${n%%-*}" | tr a-z A-Z)
  if ! git -C /repo apply --check "$(readlink -f "$p")" 2>/dev/null; then echo "$n $id PATCH-DOES-NOT-APPLY" | tee -a selftest/RESULTS.txt; continue; fi
  git -C /repo apply "$(readlink -f "$p")"
  if ! (cd /repo && go1.26 build ./... >/dev/null 2>&1); then own="does-not-compile"; else
    t=$(cd /repo && go1.26 test -count=1 ./... 2>&1 | grep -c "^FAIL\|^--- FAIL"); own="own-tests-failing=$t"; fi
  git -C /repo checkout -- . ; git -C /repo clean -fdq klog
  [ "$own" = "does-not-compile" ] && { echo "$n $id $own" | tee -a selftest/RESULTS.txt; continue; }
  r=$(SKIP_TESTS=1 tools/mutant.sh "$p" $id 2>&1 | tail -1)
  echo "$n $id $own :: $r" | tee -a selftest/RESULTS.txt
done
