#!/bin/bash
# Validates the goinstr rewrite: the repository's own test suite must pass unchanged on the
# instrumented sources (pass-through mode of vrt: native goroutines, native map order).
cd /verif && ./check build || exit 2
cd /repo && GOFLAGS=-mod=mod GOPROXY=off GOSUMDB=off GOTOOLCHAIN=local GOCACHE=/verif/.work/gocache \
  go1.26 test -overlay /verif/.work/instr/overlay.json -vet=off -count=1 ./... 2>&1 | grep -v "no test files"
