// Package vrt is the verification runtime that instrumented klog sources call into
// (added to the klog module as a virtual package through a build overlay; see goinstr).
//
// It owns two kinds of nondeterminism:
//   - map iteration order (MapSeq): every `range` over a map in klog goes through it;
//   - goroutine scheduling (Go, Chan, WaitGroup, Mutex): goroutines become threads of a
//     cooperative scheduler that runs exactly one of them at a time and asks a Chooser
//     which enabled thread performs the next synchronisation operation.
//
// Without an active controller everything passes through to the native Go behaviour.
package vrt

import (
	"fmt"
	"iter"
	"sort"
	"sync"
)

// ---------------------------------------------------------------- choice controller

// Chooser decides a choice point with n >= 2 alternatives. kind is "map" or "sched".
// For "sched", runningEnabled tells whether alternative 0 is the currently running thread
// (choosing anything else then is a preemption).
type Chooser func(kind string, n int, runningEnabled bool) int

var (
	mapChooser Chooser // active map-order controller (nil = native order … or canonical, see MapCanonical)
	// MapCanonical makes MapSeq iterate in sorted key order when no chooser is active.
	MapCanonical bool
	cur          *Sched
)

// SetMapChooser installs (or with nil removes) the map-order controller.
func SetMapChooser(c Chooser) { mapChooser = c }

// ---------------------------------------------------------------- map order

// MapSeq iterates over m in an order chosen by the controller: the keys are put into a
// canonical order (sorted by their %#v rendering); the controller picks one of the n!
// permutations (n <= 5) or one of 2n rotations/reflections (n > 5). Choice 0 is the canonical order.
func MapSeq[K comparable, V any](m map[K]V) iter.Seq2[K, V] {
	return func(yield func(K, V) bool) {
		if mapChooser == nil && !MapCanonical {
			for k, v := range m {
				if !yield(k, v) {
					return
				}
			}
			return
		}
		keys := make([]K, 0, len(m))
		for k := range m {
			keys = append(keys, k)
		}
		reprs := make(map[K]string, len(keys))
		for _, k := range keys {
			reprs[k] = fmt.Sprintf("%#v", k)
		}
		sort.Slice(keys, func(i, j int) bool { return reprs[keys[i]] < reprs[keys[j]] })
		if mapChooser != nil && len(keys) >= 2 {
			n := len(keys)
			if n <= 5 {
				total := 1
				for i := 2; i <= n; i++ {
					total *= i
				}
				keys = nthPermutation(keys, mapChooser("map", total, false))
			} else {
				c := mapChooser("map", 2*n, false)
				rot := append(append([]K{}, keys[c%n:]...), keys[:c%n]...)
				if c >= n {
					for i, j := 0, len(rot)-1; i < j; i, j = i+1, j-1 {
						rot[i], rot[j] = rot[j], rot[i]
					}
				}
				keys = rot
			}
		}
		for _, k := range keys {
			if !yield(k, m[k]) {
				return
			}
		}
	}
}

// nthPermutation returns the idx-th permutation (factorial number system) of xs; 0 = identity.
func nthPermutation[K any](xs []K, idx int) []K {
	pool := append([]K{}, xs...)
	n := len(pool)
	fact := make([]int, n)
	fact[0] = 1
	for i := 1; i < n; i++ {
		fact[i] = fact[i-1] * i
	}
	out := make([]K, 0, n)
	for i := n - 1; i >= 0; i-- {
		d := idx / fact[i]
		idx %= fact[i]
		out = append(out, pool[d])
		pool = append(pool[:d], pool[d+1:]...)
	}
	return out
}

// ---------------------------------------------------------------- cooperative scheduler

type opKind int

const (
	opStart opKind = iota
	opSend
	opRecv
	opClose
	opWgAdd
	opWgDone
	opWgWait
	opLock
	opUnlock
)

var opNames = [...]string{"start", "send", "recv", "close", "wg.Add", "wg.Done", "wg.Wait", "lock", "unlock"}

type op struct {
	kind      opKind
	ch        *chanCore
	wg        *WaitGroup
	mu        *Mutex
	completed bool // a rendezvous partner already performed the transfer
	val       any
	ok        bool
}

type thread struct {
	id      int
	wake    chan struct{}
	pending *op
	done    bool
	ops     int // synchronisation operations performed (part of the state key)
}

// Point is one recorded scheduling decision.
type Point struct {
	Enabled        int  // number of alternatives
	RunningEnabled bool // alternative 0 is the running thread
	Chosen         int
	Thread         int    // id of the chosen thread
	Op             string // the operation it performs
}

type abortSentinel struct{}

// DeadlockError is the panic value delivered to the main thread when no thread is enabled.
type DeadlockError struct{ Blocked []string }

func (d DeadlockError) Error() string { return fmt.Sprintf("deadlock: %v", d.Blocked) }

// Sched is one controlled execution.
type Sched struct {
	choose   Chooser
	threads  []*thread
	running  *thread
	Points   []Point
	Trace    []string // "t<id>:<op>" per performed operation
	Arrivals []int    // thread ids in the order their sends were received (observable order of delivery)
	aborted  bool
	deadlock *DeadlockError
	Panics   []string // uncaught panics in non-main threads
	mainDone chan struct{}
	chans    []*chanCore
	wgs      []*WaitGroup
	// StateHook, if set, is called at every choice point with a key of the global state; returning
	// true aborts the execution (the state has been fully explored before).
	StateHook func(key string) bool
	Pruned    bool
	Leaked    int
	mu        sync.Mutex
}

// Execute runs body as thread 0 under the cooperative scheduler. It returns after body has
// returned and every other thread has finished or can make no further progress.
// panicVal is the value body panicked with (nil if none).
func Execute(choose Chooser, body func()) (s *Sched, panicVal any) {
	return ExecuteWithHook(choose, nil, body)
}

// ExecuteWithHook is Execute with a state hook (see Sched.StateHook).
func ExecuteWithHook(choose Chooser, hook func(key string) bool, body func()) (s *Sched, panicVal any) {
	s = &Sched{choose: choose, mainDone: make(chan struct{}, 1), StateHook: hook}
	main := &thread{id: 0, wake: make(chan struct{}, 1)}
	s.threads = []*thread{main}
	s.running = main
	cur = s
	defer func() { cur = nil }()
	func() {
		defer func() {
			if r := recover(); r != nil {
				if _, isAbort := r.(abortSentinel); !isAbort {
					panicVal = r
				}
			}
		}()
		body()
	}()
	main.done = true
	// drive the remaining threads to completion
	if !s.aborted {
		s.handOffFromExited()
		<-s.mainDone
	}
	for _, t := range s.threads {
		if !t.done {
			s.Leaked++
		}
	}
	s.abortAll()
	return s, panicVal
}

func (s *Sched) enabled(t *thread) bool {
	o := t.pending
	if o == nil || t.done {
		return false
	}
	if o.completed {
		return true
	}
	switch o.kind {
	case opStart, opClose, opWgAdd, opWgDone, opUnlock:
		return true
	case opSend:
		c := o.ch
		if c.closed || len(c.buf) < c.capacity {
			return true
		}
		for _, u := range s.threads {
			if u != t && !u.done && u.pending != nil && u.pending.kind == opRecv && u.pending.ch == c && !u.pending.completed {
				return true
			}
		}
		return false
	case opRecv:
		c := o.ch
		if len(c.buf) > 0 || c.closed {
			return true
		}
		for _, u := range s.threads {
			if u != t && !u.done && u.pending != nil && u.pending.kind == opSend && u.pending.ch == c && !u.pending.completed {
				return true
			}
		}
		return false
	case opWgWait:
		return o.wg.n == 0
	case opLock:
		return !o.mu.locked
	}
	return false
}

// pick chooses the next thread to run; nil means no thread is enabled.
func (s *Sched) pick(from *thread) *thread {
	var en []*thread
	runningEnabled := false
	if from != nil && s.enabled(from) {
		en = append(en, from)
		runningEnabled = true
	}
	for _, t := range s.threads {
		if t != from && s.enabled(t) {
			en = append(en, t)
		}
	}
	if len(en) == 0 {
		return nil
	}
	idx := 0
	if len(en) > 1 {
		if s.StateHook != nil && s.StateHook(s.stateKey(from)) {
			s.Pruned = true
			return nil
		}
		idx = s.choose("sched", len(en), runningEnabled)
		if idx < 0 || idx >= len(en) {
			panic(fmt.Sprintf("vrt: choice %d out of range (%d alternatives)", idx, len(en)))
		}
	}
	t := en[idx]
	s.Points = append(s.Points, Point{Enabled: len(en), RunningEnabled: runningEnabled, Chosen: idx, Thread: t.id, Op: opNames[t.pending.kind]})
	return t
}

func (s *Sched) stateKey(from *thread) string {
	key := ""
	for _, t := range s.threads {
		st := "r"
		if t.done {
			st = "d"
		} else if t.pending != nil {
			st = opNames[t.pending.kind]
			if t.pending.completed {
				st += "!"
			}
		}
		key += fmt.Sprintf("%d:%d:%s|", t.id, t.ops, st)
	}
	for _, c := range s.chans {
		key += fmt.Sprintf("c%d,%v;", len(c.buf), c.closed)
	}
	for _, w := range s.wgs {
		key += fmt.Sprintf("w%d;", w.n)
	}
	key += fmt.Sprint(s.Arrivals)
	if from != nil {
		key += fmt.Sprintf("@%d", from.id)
	}
	return key
}

// yield is the schedule point: the running thread announces its next operation and
// continues only when the scheduler picks it (and the operation is enabled).
func (s *Sched) yield(o *op) {
	t := s.running
	if s.aborted {
		panic(abortSentinel{})
	}
	t.pending = o
	next := s.pick(t)
	if next == nil {
		if s.Pruned {
			s.abortFrom(t)
		}
		s.reportDeadlock()
		s.abortFrom(t)
	}
	if next != t {
		s.running = next
		next.wake <- struct{}{}
		<-t.wake
		if s.aborted {
			panic(abortSentinel{})
		}
	}
	t.pending = nil
	t.ops++
	s.Trace = append(s.Trace, fmt.Sprintf("t%d:%s", t.id, opNames[o.kind]))
}

func (s *Sched) reportDeadlock() {
	d := &DeadlockError{}
	for _, t := range s.threads {
		if !t.done && t.pending != nil {
			d.Blocked = append(d.Blocked, fmt.Sprintf("t%d:%s", t.id, opNames[t.pending.kind]))
		}
	}
	s.deadlock = d
}

// Deadlock returns the deadlock found in this execution, if any.
func (s *Sched) Deadlock() *DeadlockError { return s.deadlock }

// abortFrom ends the execution from the running thread t: every other live thread is woken
// with the abort flag set, then t itself unwinds.
func (s *Sched) abortFrom(t *thread) {
	s.aborted = true
	if t.id != 0 {
		// let main unwind and finish the execution
		main := s.threads[0]
		if !main.done {
			main.wake <- struct{}{}
		} else {
			s.mainDone <- struct{}{}
		}
	}
	panic(abortSentinel{})
}

func (s *Sched) abortAll() {
	s.aborted = true
	for _, t := range s.threads[1:] {
		if !t.done {
			select {
			case t.wake <- struct{}{}:
			default:
			}
		}
	}
}

// handOffFromExited is called by a thread that has finished: someone else must run.
func (s *Sched) handOffFromExited() {
	next := s.pick(nil)
	if next == nil {
		main := s.threads[0]
		if !s.Pruned && !main.done {
			// main is blocked and nobody can run
			s.reportDeadlock()
		}
		if !main.done {
			s.aborted = true
			main.wake <- struct{}{}
			return
		}
		// all remaining threads are blocked forever (leak) or everything is done
		select {
		case s.mainDone <- struct{}{}:
		default:
		}
		return
	}
	s.running = next
	next.wake <- struct{}{}
}

func (s *Sched) threadMain(t *thread, f func()) {
	<-t.wake
	if s.aborted {
		t.done = true
		return
	}
	t.pending = nil
	t.ops++
	s.Trace = append(s.Trace, fmt.Sprintf("t%d:start", t.id))
	func() {
		defer func() {
			if r := recover(); r != nil {
				if _, isAbort := r.(abortSentinel); !isAbort {
					s.Panics = append(s.Panics, fmt.Sprintf("t%d: %v", t.id, r))
				}
			}
		}()
		f()
	}()
	t.done = true
	if s.aborted {
		return
	}
	s.handOffFromExited()
}

// Go starts f as a new thread (or as a plain goroutine when no scheduler is active).
func Go(f func()) {
	s := cur
	if s == nil {
		go f()
		return
	}
	t := &thread{id: len(s.threads), wake: make(chan struct{}, 1), pending: &op{kind: opStart}}
	s.threads = append(s.threads, t)
	go s.threadMain(t, f)
}

// ---------------------------------------------------------------- channels

type chanCore struct {
	capacity int
	buf      []any
	closed   bool
}

// Chan models a Go channel of T.
type Chan[T any] struct {
	real chan T
	core *chanCore
	s    *Sched // the execution this channel was made in (nil = native)
}

func MakeChan[T any](capacity int) *Chan[T] {
	c := &Chan[T]{real: make(chan T, capacity), core: &chanCore{capacity: capacity}, s: cur}
	if c.s != nil {
		c.s.chans = append(c.s.chans, c.core)
	}
	return c
}

func (c *Chan[T]) Send(v T) {
	s := c.s
	if s == nil {
		c.real <- v
		return
	}
	o := &op{kind: opSend, ch: c.core, val: v}
	s.yield(o)
	if o.completed {
		return // a receiver took the value while this thread was waiting
	}
	if c.core.closed {
		panic("send on closed channel")
	}
	// hand the value to a waiting receiver, or buffer it
	for _, u := range s.threads {
		if u != s.running && !u.done && u.pending != nil && u.pending.kind == opRecv && u.pending.ch == c.core && !u.pending.completed {
			u.pending.val, u.pending.ok, u.pending.completed = v, true, true
			s.Arrivals = append(s.Arrivals, s.running.id)
			return
		}
	}
	c.core.buf = append(c.core.buf, v)
}

func (c *Chan[T]) Recv() (T, bool) {
	s := c.s
	if s == nil {
		v, ok := <-c.real
		return v, ok
	}
	o := &op{kind: opRecv, ch: c.core}
	s.yield(o)
	var zero T
	if o.completed {
		if !o.ok {
			return zero, false
		}
		return o.val.(T), true
	}
	if len(c.core.buf) > 0 {
		v := c.core.buf[0]
		c.core.buf = c.core.buf[1:]
		return v.(T), true
	}
	// take directly from a waiting sender
	for _, u := range s.threads {
		if u != s.running && !u.done && u.pending != nil && u.pending.kind == opSend && u.pending.ch == c.core && !u.pending.completed {
			u.pending.completed = true
			s.Arrivals = append(s.Arrivals, u.id)
			return u.pending.val.(T), true
		}
	}
	if c.core.closed {
		return zero, false
	}
	panic("vrt: receive scheduled although not enabled")
}

// Recv1 is `<-c` used as an expression.
func (c *Chan[T]) Recv1() T {
	v, _ := c.Recv()
	return v
}

func (c *Chan[T]) Close() {
	s := c.s
	if s == nil {
		close(c.real)
		return
	}
	s.yield(&op{kind: opClose, ch: c.core})
	if c.core.closed {
		panic("close of closed channel")
	}
	c.core.closed = true
}

// All is `for v := range c`.
func (c *Chan[T]) All() iter.Seq[T] {
	return func(yield func(T) bool) {
		for {
			v, ok := c.Recv()
			if !ok || !yield(v) {
				return
			}
		}
	}
}

// ---------------------------------------------------------------- WaitGroup, Mutex

type WaitGroup struct {
	real  sync.WaitGroup
	n     int
	bound bool
	s     *Sched // the execution in which it was first used (nil = native)
}

// sched binds the object to the execution in which it is first used.
func (w *WaitGroup) sched() *Sched {
	if !w.bound {
		w.bound = true
		w.s = cur
		if w.s != nil {
			w.s.wgs = append(w.s.wgs, w)
		}
	}
	return w.s
}

func (w *WaitGroup) Add(n int) {
	s := w.sched()
	if s == nil {
		w.real.Add(n)
		return
	}
	s.yield(&op{kind: opWgAdd, wg: w})
	w.n += n
	if w.n < 0 {
		panic("sync: negative WaitGroup counter")
	}
}

func (w *WaitGroup) Done() {
	s := w.sched()
	if s == nil {
		w.real.Done()
		return
	}
	if s.aborted {
		return
	}
	s.yield(&op{kind: opWgDone, wg: w})
	w.n--
	if w.n < 0 {
		panic("sync: negative WaitGroup counter")
	}
}

func (w *WaitGroup) Wait() {
	s := w.sched()
	if s == nil {
		w.real.Wait()
		return
	}
	s.yield(&op{kind: opWgWait, wg: w})
}

type Mutex struct {
	real   sync.Mutex
	locked bool
	bound  bool
	s      *Sched
}

func (m *Mutex) sched() *Sched {
	if !m.bound {
		m.bound = true
		m.s = cur
	}
	return m.s
}

func (m *Mutex) Lock() {
	s := m.sched()
	if s == nil {
		m.real.Lock()
		return
	}
	s.yield(&op{kind: opLock, mu: m})
	m.locked = true
}

func (m *Mutex) Unlock() {
	s := m.sched()
	if s == nil {
		m.real.Unlock()
		return
	}
	if s.aborted {
		return
	}
	s.yield(&op{kind: opUnlock, mu: m})
	if !m.locked {
		panic("sync: unlock of unlocked mutex")
	}
	m.locked = false
}
